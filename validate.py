#!/opt/veriftools/pyvenv/bin/python
import json, jsonschema, sys, glob
jsonschema.validate(json.load(open('/verif/MANIFEST.json')), json.load(open('/root/.vp/MANIFEST.schema.json')))
es = json.load(open('/root/.vp/EVIDENCE.schema.json'))
m = json.load(open('/verif/MANIFEST.json'))
bad = 0
for c in m['checks']:
    try:
        e = json.load(open(c['evidence_file']))
        jsonschema.validate(e, es)
        assert e['level'] == c['level_claimed']['category'], 'level mismatch'
    except Exception as ex:
        bad += 1
        print('BAD', c['property_id'], str(ex)[:200])
print('manifest valid; evidence bad:', bad)
