# Per-property configuration of the driver (./check) and source of MANIFEST.json (gen_manifest.py).
# test: Go test function in harness/<pkg>; quick/thorough: batches (child processes), parallelism, wall watchdog (s).

ENGINES = [
    {"name": "harness/checks", "path": "/verif/harness/checks", "serves_properties": [],
     "kind_free_text": "Go test binary (built with -tags verif against /repo's working tree) holding one monitor per property; run as child-process batches by /verif/check"},
    {"name": "driver", "path": "/verif/check", "serves_properties": [],
     "kind_free_text": "python3 driver: build, batches, watchdogs, merge of observations, known-finding matching, evidence writer"},
]

NOT_APPLICABLE = {}

STRAT_ASSUME = [
    "strategy.Deploy is driven directly with total = saturating sum of the offered capacities (what calcium passes)",
    "candidate names are distinct, capacities >= 1 (calcium only offers nodes with capacity > 0), limit >= 0, rates >= 0",
]
STRAT_NOTE = "Trusted: the harness oracle (an independent relational predicate, not the algorithm), Go runtime. Reach: inputs generated (exhaustive tiny block + PRNG block); says nothing about sizes beyond 8 nodes."

def strat(test, seed, rule, text, assume=()):
    return dict(test=test, level="exploration", seed=seed, rule=rule, level_text=text, level_note=STRAT_NOTE,
                technique="reference-model runtime monitor over the real strategy.Deploy (bounded-exhaustive + PRNG inputs)",
                quick=dict(batches=4, wall=600), thorough=dict(batches=12, wall=3000), assumptions=STRAT_ASSUME + list(assume))

CHECKS = {
    "C01": strat("TestC01", 101,
                 "bounded-exhaustive block (n<=2 quick / n<=3 thorough nodes; cap in {1,2,3,unlimited}; count 0..2; 2 usage x 2 rate values; need 1..8; limit 0..n+1; all 5 strategies) followed by a PRNG block (1..8 nodes, caps 1..45 and unlimited, counts 0..6, need up to sum+2). Non-trivial = a plan was produced; distinct = hash of (strategy, need, limit, per-node cap/count/usage/rate)",
                 "Every plan the real strategy code returns on ~7e5 (quick) / ~3e7 (thorough) generated inputs is judged by an independent oracle for candidate membership, non-negativity, capacity, totals and the AUTO node limit; the small block is enumerated completely. Exploration is the right level: the property is a relation over an unbounded input space of a pure function."),
    "C02": strat("TestC02", 102,
                 "same case stream as C01; oracle = independent feasibility predicate per strategy. Non-trivial = changing the requested count by at most 2 flips feasibility (the case sits on the feasibility boundary); distinct = hash of the normalised case",
                 "Refusal-iff-infeasible is decided per input by an independent feasibility predicate; both directions (feasible but refused, infeasible but planned) are witnessed separately, with >=1000 feasible and infeasible inputs per strategy required.",
                 ["ErrAlreadyFilled (FILL with nothing to add) is not an insufficient-resource refusal"]),
    "C03": strat("TestC03", 103,
                 "same case stream as C01; oracle = the relational balancing rule of each strategy on every produced plan. Non-trivial = >=2 nodes and at least one (i,j) node pair is constrained by the rule; distinct = hash of the normalised case",
                 "Each produced plan is checked against the pairwise balancing relation the property states for its strategy (never against a re-implementation of the algorithm); >=1000 rule-bound plans per strategy are required, otherwise the run is inconclusive."),
    "C17": dict(test="TestC17", level="exploration", seed=117,
                rule="complete matrix: Txn cond{ok,fail} x then{ok,fail,absent} x rollback{ok,fail,absent} x caller cancellation {none, before, during cond, during then, during rollback} (90) + PCR prepare x commit x rollback x cancellation (40); cancellation is triggered from inside the step, so 'during' is exact. Every combination is non-trivial; distinct = the combination. The matrix is then repeated from 16 concurrent goroutines.",
                level_text="The whole finite outcome x cancellation matrix of the transaction helper is enumerated (exhaustive: true) with instrumented closures; the oracle checks step execution counts, the failureByCond flag, the returned error and liveness of the rollback context after caller cancellation.",
                level_note="Trusted: instrumented closures and oracle in the harness. ttl is fixed at 1 minute (the helper's own rollback timeout is not part of the property); concurrency adds no new cases, it only shows the helper shares no state across invocations.",
                technique="exhaustive runtime monitor: instrumented closures over the full outcome x cancellation matrix of utils.Txn/PCR",
                quick=dict(batches=1, wall=300), thorough=dict(batches=1, wall=900),
                assumptions=["step outcomes are scripted independently of cancellation", "ttl = 1 minute, never reached"]),
    "C04": dict(test="TestC04", level="exploration", seed=104,
                rule="node states from the section-4.5 generator (1..8 cores, 16 thorough; share base 100/10/1000; capacities base, 2*base and non-multiples; per-core usage with fragment bias; optional 2-node NUMA with NUMA memory; reachable states only: sum NUMA usage <= memory usage; max-share -1,1,2,3,n) x requests (bound and not, CPU on the share-base grid plus sub-piece values, memory 0/small/near free/above free). Each case goes (a) through schedule.GetCPUPlans directly - all returned plans judged jointly - and (b) through the real plugin on embedded etcd: GetNodesDeployCapacity, CalculateDeploy(k in {1,cap-1,cap}), SetNodeResourceUsage commit, read back. Non-trivial = bound request and (>=2 instances or NUMA node); distinct = hash(node state, request, route)",
                level_text="Every allocation answer is judged jointly against the node's free per-core pieces, NUMA core membership, NUMA free memory and total free memory by an independent oracle, the commit must be accepted and the read-back usage must stay within capacity (including plain memory, which the plugin's own Validate does not check).",
                level_note="Trusted: harness oracle and generators; embedded etcd. Node states are installed with SetNodeResourceInfo, i.e. only states the plugin accepts as valid are explored.",
                technique="reference-model runtime monitor over the real cpumem plugin (embedded etcd) and schedule.GetCPUPlans",
                quick=dict(batches=4, wall=900), thorough=dict(batches=12, wall=3000),
                assumptions=["only reachable node states: usage <= capacity per core, sum of NUMA memory usage <= memory usage, sum NUMA capacity <= memory capacity"]),
    "C05": dict(test="TestC05", level="exploration", seed=105,
                rule="exhaustive grid block: every request k/base, k=1..3*base, at share base 100 and 10 (base 1000: stride 7 quick / all thorough) planned on an empty 5-core node through schedule.GetCPUPlans and CalculateDeploy; then the C04 random stream restricted to bound requests. Non-trivial = bound request for which at least one instance was planned; distinct = hash(node state, request, route)",
                level_text="Each planned bound instance is checked for piece total = round(request*base), whole cores at full share plus at most one fractional core, and agreement between the recorded cpu_request and the pieces; the share-base grid is enumerated completely for base 100 and 10.",
                level_note="Trusted: harness oracle. Rounding rule is 'nearest piece' (floor(x+0.5)) as the property states.",
                technique="reference-model runtime monitor, exhaustive over the share-base request grid + PRNG node states",
                quick=dict(batches=4, wall=900), thorough=dict(batches=12, wall=3000), assumptions=[]),
    "C06": dict(test="TestC06", level="exploration", seed=106, dead_child="violation", dead_key_prefix="planner",
                rule="hostile corner of the section-4.5 generator: sub-piece requests, max-share below the number of fractional cores already present, capacities that are not multiples of the share base, every share base; schedule.GetCPUPlans with and without an affinity origin map, GetNodesDeployCapacity, CalculateDeploy and CalculateRealloc (hostile deltas incl. ones that leave < 1 piece) through the real plugin. Every call runs under panic capture and a 20 s / 3 GiB watchdog, the case is journalled before the call. Non-trivial = bound request; distinct = hash(node state, request, route)",
                level_text="Each planner/plugin call is executed under panic capture and a watchdog (wall + heap growth); a call that panics, does not return or allocates without bound is a violation with the journalled case as witness.",
                level_note="Trusted: watchdog thresholds (20 s or 3 GiB for a call that normally takes microseconds on <=16 cores). A child that dies with a journalled case is reported as a violation of that case.",
                technique="runtime monitor with panic capture, journalling and wall/heap watchdog over hostile planner inputs",
                quick=dict(batches=4, wall=900), thorough=dict(batches=12, wall=3000), assumptions=[]),
    "C33": dict(test="TestC33", level="exploration", seed=133,
                rule="nodes with whole-core shares (2..8 cores, 12 thorough; capacity base or 2*base per core; share base 100/10; with and without a 2-node NUMA split, NUMA memory 5000/5000 or 0/0), 1..6 bound workloads placed through the plugin (CalculateDeploy + commit; fractional, whole and mixed requests), then every workload re-allocated in turn with keep-cpu-bind, cpu delta 0 and memory delta in {0,+100,-100}. Oracle compares the SET of cores and the NUMA node before/after (piece redistribution inside the same cores is not a violation). Non-trivial = a re-allocation that succeeded; distinct = hash(node state, core set, memory delta)",
                level_text="Every successful no-change re-allocation on generated whole-share nodes is checked for an unchanged core set and NUMA node; >=500 judged re-allocations (>=100 on NUMA nodes) are required.",
                level_note="Trusted: harness oracle; workloads are placed by the plugin itself, so only placements the planner really produces are explored.",
                technique="reference-model runtime monitor over CalculateRealloc on plugin-produced placements",
                quick=dict(batches=4, wall=900), thorough=dict(batches=12, wall=3000), assumptions=["whole-core shares = every core's capacity is a multiple of the share base"]),
    "C07": dict(test="TestC07", level="exploration", seed=107,
                rule="1..3 generated nodes (section-4.5 generator) x a generated request (bound and memory-only, zero memory = unlimited, sub-piece CPU); real cobalt.Manager + cpumem on embedded etcd: GetNodesDeployCapacity, then per node Alloc(cap) must succeed, Alloc(cap+1) must fail, an unoffered node must refuse Alloc(1), unlimited nodes must accept Alloc(1000), total must be the saturating sum, and for memory-only requests Alloc(k) must lower the capacity by exactly k (state re-installed between probes). Non-trivial = at least one node with finite positive capacity probed; distinct = hash(request, node states)",
                level_text="Reported capacity is compared with what the real manager's Alloc accepts by probing at cap and cap+1 on every offered node, plus the memory-only decrement law and the saturating total.",
                level_note="Trusted: harness probes; state is re-installed from the generated description between probes, so probes are independent.",
                technique="probe-based runtime monitor over the real resource manager (capacity vs Alloc)",
                quick=dict(batches=4, wall=900), thorough=dict(batches=12, wall=3000), assumptions=["capacities above 4096 are not probed with Alloc(cap)"]),
    "C08": dict(test="TestC08", level="exploration", seed=108,
                rule="histories of 5..40 operations (alloc 1..3 instances, rollback-alloc, realloc {grow, shrink, bind, unbind, keep-bind, memory +/-}, rollback-realloc, release) through the real cobalt.Manager on whole-share nodes with/without NUMA (a third start with foreign usage); the harness keeps the live set exactly as the manager returned it. After every step usage (read from the plugin record) must equal initial usage + sum of live workloads in cpu, per-core pieces, memory and per-NUMA memory; after every rollback usage must equal the snapshot taken before the operation. Non-trivial = history containing a rollback or a realloc on a NUMA node; distinct = hash(node, op list)",
                level_text="Conservation (usage = sum of live workloads, all four dimensions) is asserted after every step of generated histories and exact restoration after every rollback; minimum observation thresholds on conservation checks, NUMA reallocs and rollbacks.",
                level_note="Trusted: the harness's own summation over the workload resources the manager returned; embedded etcd.",
                technique="history monitor with an independent conservation oracle over the real resource manager",
                quick=dict(batches=4, wall=900), thorough=dict(batches=12, wall=3000), assumptions=[]),
}
