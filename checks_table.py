# Per-property configuration of the driver (./check) and source of MANIFEST.json (gen_manifest.py).
# test: Go test function in harness/<pkg>; quick/thorough: batches (child processes), parallelism, wall watchdog (s).

ENGINES = [
    {"name": "harness/checks", "path": "/verif/harness/checks", "serves_properties": [],
     "kind_free_text": "Go test binary (built with -tags verif against /repo's working tree) holding one monitor per property; run as child-process batches by /verif/check"},
    {"name": "driver", "path": "/verif/check", "serves_properties": [],
     "kind_free_text": "python3 driver: build, batches, watchdogs, merge of observations, known-finding matching, evidence writer"},
]

NOT_APPLICABLE = {}

STRAT_ASSUME = [
    "strategy.Deploy is driven directly with total = saturating sum of the offered capacities (what calcium passes)",
    "candidate names are distinct, capacities >= 1 (calcium only offers nodes with capacity > 0), limit >= 0, rates >= 0",
]
STRAT_NOTE = "Trusted: the harness oracle (an independent relational predicate, not the algorithm), Go runtime. Reach: inputs generated (exhaustive tiny block + PRNG block); says nothing about sizes beyond 8 nodes."

def strat(test, seed, rule, text, assume=()):
    return dict(test=test, level="exploration", seed=seed, rule=rule, level_text=text, level_note=STRAT_NOTE,
                technique="reference-model runtime monitor over the real strategy.Deploy (bounded-exhaustive + PRNG inputs)",
                quick=dict(batches=4, wall=600), thorough=dict(batches=12, wall=3000), assumptions=STRAT_ASSUME + list(assume))

CHECKS = {
    "C01": strat("TestC01", 101,
                 "bounded-exhaustive block (n<=2 quick / n<=3 thorough nodes; cap in {1,2,3,unlimited}; count 0..2; 2 usage x 2 rate values; need 1..8; limit 0..n+1; all 5 strategies) followed by a PRNG block (1..8 nodes, caps 1..45 and unlimited, counts 0..6, need up to sum+2). Non-trivial = a plan was produced; distinct = hash of (strategy, need, limit, per-node cap/count/usage/rate)",
                 "Every plan the real strategy code returns on ~7e5 (quick) / ~3e7 (thorough) generated inputs is judged by an independent oracle for candidate membership, non-negativity, capacity, totals and the AUTO node limit; the small block is enumerated completely. Exploration is the right level: the property is a relation over an unbounded input space of a pure function."),
    "C02": strat("TestC02", 102,
                 "same case stream as C01; oracle = independent feasibility predicate per strategy. Non-trivial = changing the requested count by at most 2 flips feasibility (the case sits on the feasibility boundary); distinct = hash of the normalised case",
                 "Refusal-iff-infeasible is decided per input by an independent feasibility predicate; both directions (feasible but refused, infeasible but planned) are witnessed separately, with >=1000 feasible and infeasible inputs per strategy required.",
                 ["ErrAlreadyFilled (FILL with nothing to add) is not an insufficient-resource refusal"]),
    "C03": strat("TestC03", 103,
                 "same case stream as C01; oracle = the relational balancing rule of each strategy on every produced plan. Non-trivial = >=2 nodes and at least one (i,j) node pair is constrained by the rule; distinct = hash of the normalised case",
                 "Each produced plan is checked against the pairwise balancing relation the property states for its strategy (never against a re-implementation of the algorithm); >=1000 rule-bound plans per strategy are required, otherwise the run is inconclusive."),
}
