#!/bin/bash
# usage: seed_regress.sh [seed-dir-name ...] — applies every seeded change under seeded/ to /repo in turn, runs the
# quick check of its property and records whether it is (still) caught: seeded/REGRESSION.txt. Never run it while
# another check runs (both build from /repo's working tree).
cd "$(dirname "$0")"
L=${*:-$(ls seeded | grep -E '^C[0-9]+[a-z]?$')}
out=seeded/REGRESSION.txt
[ $# -eq 0 ] && : > $out
for d in $L; do
  id=$(echo $d | sed 's/[a-z]$//')
  p=$PWD/seeded/$d/patch.diff; [ -f seeded/$d/patch.rebased.diff ] && p=$PWD/seeded/$d/patch.rebased.diff
  if ! git -C /repo apply --check $p 2>/dev/null; then echo "$d $id DOES-NOT-APPLY" | tee -a $out; continue; fi
  r=$(./seedtest.sh $p $id 2>&1 | grep -E "^RESULT|seedtest rc" | tr '\n' ' ' | cut -c1-200)
  case "$r" in *"rc=1"*) s=caught;; *) s=MISSED;; esac
  echo "$d $id $s :: $r" | tee -a $out
done
