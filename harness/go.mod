module verifharness

go 1.20

require (
	github.com/CMGS/statsd v0.0.0-20160223095033-48c421b3c1ab
	github.com/alicebob/miniredis/v2 v2.30.2
	github.com/alphadose/haxmap v1.2.0
	github.com/cenkalti/backoff/v4 v4.2.1
	github.com/cockroachdb/errors v1.9.1
	github.com/docker/distribution v2.8.2+incompatible
	github.com/docker/docker v24.0.9+incompatible
	github.com/docker/go-connections v0.4.0
	github.com/docker/go-units v0.5.0
	github.com/getsentry/sentry-go v0.20.0
	github.com/go-git/go-git/v5 v5.11.0
	github.com/go-ping/ping v1.1.0
	github.com/go-redis/redis/v8 v8.11.5
	github.com/google/uuid v1.3.1
	github.com/jinzhu/configor v1.2.1
	github.com/mitchellh/mapstructure v1.5.0
	github.com/muroq/redislock v0.0.0-20210327061935-5425e33e6f9f
	github.com/opencontainers/image-spec v1.1.0-rc2.0.20221005185240-3a7f492d3f1b
	github.com/panjf2000/ants/v2 v2.7.3
	github.com/pkg/errors v0.9.1
	github.com/projecteru2/libyavirt v0.0.0-20230921032447-a617cf0c746c
	github.com/prometheus/client_golang v1.15.0
	github.com/prometheus/client_model v0.3.0
	github.com/rs/zerolog v1.29.1
	github.com/sanity-io/litter v1.5.5
	github.com/stretchr/testify v1.8.4
	github.com/urfave/cli/v2 v2.25.1
	go.etcd.io/bbolt v1.3.8
	go.etcd.io/etcd/api/v3 v3.5.11
	go.etcd.io/etcd/client/pkg/v3 v3.5.11
	go.etcd.io/etcd/client/v3 v3.5.11
	go.etcd.io/etcd/tests/v3 v3.5.11
	go.uber.org/automaxprocs v1.5.2
	go.uber.org/zap v1.24.0
	golang.org/x/crypto v0.17.0
	golang.org/x/exp v0.0.0-20230425010034-47ecfdc1ba53
	golang.org/x/net v0.19.0
	golang.org/x/sync v0.4.0
	google.golang.org/grpc v1.60.1
	google.golang.org/protobuf v1.33.0
	gopkg.in/natefinch/lumberjack.v2 v2.2.1
)

require (
	dario.cat/mergo v1.0.0 // indirect
	github.com/Azure/go-ansiterm v0.0.0-20230124172434-306776ec8161 // indirect
	github.com/BurntSushi/toml v1.2.1 // indirect
	github.com/Microsoft/go-winio v0.6.1 // indirect
	github.com/ProtonMail/go-crypto v0.0.0-20230828082145-3c4c8a2d2371 // indirect
	github.com/alexcesaro/statsd v2.0.0+incompatible // indirect
	github.com/alicebob/gopher-json v0.0.0-20230218143504-906a9b012302 // indirect
	github.com/benbjohnson/clock v1.3.3 // indirect
	github.com/beorn7/perks v1.0.1 // indirect
	github.com/cespare/xxhash/v2 v2.2.0 // indirect
	github.com/cloudflare/circl v1.3.7 // indirect
	github.com/cockroachdb/logtags v0.0.0-20230118201751-21c54148d20b // indirect
	github.com/cockroachdb/redact v1.1.3 // indirect
	github.com/containerd/containerd v1.7.11 // indirect
	github.com/coreos/go-semver v0.3.1 // indirect
	github.com/coreos/go-systemd/v22 v22.5.0 // indirect
	github.com/cpuguy83/go-md2man/v2 v2.0.2 // indirect
	github.com/cyphar/filepath-securejoin v0.2.4 // indirect
	github.com/davecgh/go-spew v1.1.1 // indirect
	github.com/dgryski/go-rendezvous v0.0.0-20200823014737-9f7001d12a5f // indirect
	github.com/docker/go-metrics v0.0.1 // indirect
	github.com/docker/libtrust v0.0.0-20160708172513-aabc10ec26b7 // indirect
	github.com/dustin/go-humanize v1.0.1 // indirect
	github.com/emirpasic/gods v1.18.1 // indirect
	github.com/go-git/gcfg v1.5.1-0.20230307220236-3a3c6141e376 // indirect
	github.com/go-git/go-billy/v5 v5.5.0 // indirect
	github.com/go-logr/logr v1.3.0 // indirect
	github.com/go-logr/stdr v1.2.2 // indirect
	github.com/gogo/protobuf v1.3.2 // indirect
	github.com/golang-jwt/jwt/v4 v4.5.0 // indirect
	github.com/golang/groupcache v0.0.0-20210331224755-41bb18bfe9da // indirect
	github.com/golang/protobuf v1.5.4 // indirect
	github.com/google/btree v1.1.2 // indirect
	github.com/gorilla/mux v1.8.0 // indirect
	github.com/gorilla/websocket v1.5.0 // indirect
	github.com/grpc-ecosystem/go-grpc-middleware v1.4.0 // indirect
	github.com/grpc-ecosystem/go-grpc-prometheus v1.2.0 // indirect
	github.com/grpc-ecosystem/grpc-gateway v1.16.0 // indirect
	github.com/grpc-ecosystem/grpc-gateway/v2 v2.16.0 // indirect
	github.com/jbenet/go-context v0.0.0-20150711004518-d14ea06fba99 // indirect
	github.com/jonboulle/clockwork v0.4.0 // indirect
	github.com/json-iterator/go v1.1.12 // indirect
	github.com/kevinburke/ssh_config v1.2.0 // indirect
	github.com/klauspost/compress v1.16.5 // indirect
	github.com/kr/pretty v0.3.1 // indirect
	github.com/kr/text v0.2.0 // indirect
	github.com/mattn/go-colorable v0.1.13 // indirect
	github.com/mattn/go-isatty v0.0.18 // indirect
	github.com/matttproud/golang_protobuf_extensions v1.0.4 // indirect
	github.com/moby/patternmatcher v0.5.0 // indirect
	github.com/moby/sys/sequential v0.5.0 // indirect
	github.com/moby/term v0.0.0-20221205130635-1aeaba878587 // indirect
	github.com/modern-go/concurrent v0.0.0-20180306012644-bacd9c7ef1dd // indirect
	github.com/modern-go/reflect2 v1.0.2 // indirect
	github.com/morikuni/aec v1.0.0 // indirect
	github.com/opencontainers/go-digest v1.0.0 // indirect
	github.com/opencontainers/runc v1.1.12 // indirect
	github.com/pjbgf/sha1cd v0.3.0 // indirect
	github.com/pmezard/go-difflib v1.0.0 // indirect
	github.com/prometheus/common v0.42.0 // indirect
	github.com/prometheus/procfs v0.9.0 // indirect
	github.com/rogpeppe/go-internal v1.11.0 // indirect
	github.com/russross/blackfriday/v2 v2.1.0 // indirect
	github.com/sergi/go-diff v1.3.1 // indirect
	github.com/sirupsen/logrus v1.9.3 // indirect
	github.com/skeema/knownhosts v1.2.1 // indirect
	github.com/soheilhy/cmux v0.1.5 // indirect
	github.com/spf13/pflag v1.0.5 // indirect
	github.com/stretchr/objx v0.5.0 // indirect
	github.com/tmc/grpc-websocket-proxy v0.0.0-20220101234140-673ab2c3ae75 // indirect
	github.com/xanzy/ssh-agent v0.3.3 // indirect
	github.com/xiang90/probing v0.0.0-20221125231312-a49e3df8f510 // indirect
	github.com/xrash/smetrics v0.0.0-20201216005158-039620a65673 // indirect
	github.com/yuin/gopher-lua v1.1.0 // indirect
	go.etcd.io/etcd/client/v2 v2.305.11 // indirect
	go.etcd.io/etcd/pkg/v3 v3.5.11 // indirect
	go.etcd.io/etcd/raft/v3 v3.5.11 // indirect
	go.etcd.io/etcd/server/v3 v3.5.11 // indirect
	go.opentelemetry.io/contrib/instrumentation/google.golang.org/grpc/otelgrpc v0.46.0 // indirect
	go.opentelemetry.io/otel v1.20.0 // indirect
	go.opentelemetry.io/otel/exporters/otlp/otlptrace v1.20.0 // indirect
	go.opentelemetry.io/otel/exporters/otlp/otlptrace/otlptracegrpc v1.20.0 // indirect
	go.opentelemetry.io/otel/metric v1.20.0 // indirect
	go.opentelemetry.io/otel/sdk v1.20.0 // indirect
	go.opentelemetry.io/otel/trace v1.20.0 // indirect
	go.opentelemetry.io/proto/otlp v1.0.0 // indirect
	go.uber.org/atomic v1.10.0 // indirect
	go.uber.org/multierr v1.11.0 // indirect
	golang.org/x/mod v0.12.0 // indirect
	golang.org/x/sys v0.15.0 // indirect
	golang.org/x/text v0.14.0 // indirect
	golang.org/x/time v0.3.0 // indirect
	golang.org/x/tools v0.13.0 // indirect
	google.golang.org/genproto v0.0.0-20231002182017-d307bd883b97 // indirect
	google.golang.org/genproto/googleapis/api v0.0.0-20231002182017-d307bd883b97 // indirect
	google.golang.org/genproto/googleapis/rpc v0.0.0-20231002182017-d307bd883b97 // indirect
	gopkg.in/warnings.v0 v0.1.2 // indirect
	gopkg.in/yaml.v2 v2.4.0 // indirect
	gopkg.in/yaml.v3 v3.0.1 // indirect
	gotest.tools/v3 v3.4.0 // indirect
	sigs.k8s.io/yaml v1.3.0 // indirect
)

replace google.golang.org/grpc/test/grpc_testing => google.golang.org/grpc/interop/grpc_testing v1.60.1

require (
	github.com/projecteru2/core v0.0.0
	github.com/anishathalye/porcupine v1.3.0
)

replace github.com/projecteru2/core => /repo
