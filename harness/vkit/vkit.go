// Package vkit holds what every check shares: seed / tier / batch parameters, the evidence part
// writer, the violation + replay writer and a small deterministic PRNG helper.
//
// A check runs as one or more child processes ("batches") of the compiled test binary. Each batch
// writes $VERIF_OUT/part-<batch>.json; the python driver (/verif/check) merges the parts, matches
// witnesses against /verif/known_findings.json, prints VIOLATION / KNOWN-FINDING lines, writes
// /verif/evidence/<id>.json and decides the exit code.
package vkit

import (
	"encoding/binary"
	"encoding/json"
	"fmt"
	"hash/fnv"
	"math/rand"
	"os"
	"path/filepath"
	"sort"
	"strconv"
	"sync"
	"time"
)

// Env describes how this process was started by the driver.
type Env struct {
	ID      string
	Tier    string // quick | thorough
	Seed    int64
	Batch   int
	NBatch  int
	Out     string // directory for part files
	Replay  string // path of a replay file, "" when not replaying
	Verif   string // /verif
	started time.Time
}

// Thorough reports whether the thorough tier was requested.
func (e *Env) Thorough() bool { return e.Tier == "thorough" }

// Pick returns q for quick, t for thorough.
func (e *Env) Pick(q, t int) int {
	if e.Thorough() {
		return t
	}
	return q
}

func getenv(k, def string) string {
	if v := os.Getenv(k); v != "" {
		return v
	}
	return def
}

// Load reads the environment prepared by the driver. Running the test binary by hand works too:
// defaults are quick tier, seed 1, a single batch and ./verif-out.
func Load(id string) *Env {
	e := &Env{ID: id, started: time.Now()}
	e.Tier = getenv("VERIF_TIER", "quick")
	if e.Tier != "thorough" {
		e.Tier = "quick"
	}
	e.Seed, _ = strconv.ParseInt(getenv("VERIF_SEED", "1"), 10, 64)
	e.Batch, _ = strconv.Atoi(getenv("VERIF_BATCH", "0"))
	e.NBatch, _ = strconv.Atoi(getenv("VERIF_NBATCH", "1"))
	if e.NBatch < 1 {
		e.NBatch = 1
	}
	e.Out = getenv("VERIF_OUT", filepath.Join(os.TempDir(), "verif-out"))
	e.Replay = os.Getenv("VERIF_REPLAY")
	e.Verif = getenv("VERIF_DIR", "/verif")
	_ = os.MkdirAll(e.Out, 0o755)
	return e
}

// Rand returns a PRNG for a named stream of this batch: streams are independent functions of
// (seed, batch, name) so adding a stream never perturbs another one.
func (e *Env) Rand(stream string) *rand.Rand {
	h := fnv.New64a()
	fmt.Fprintf(h, "%d/%d/%s/%s", e.Seed, e.Batch, e.ID, stream)
	return rand.New(rand.NewSource(int64(h.Sum64())))
}

// Violation is one witness.
type Violation struct {
	Key    string `json:"key"`    // finding key: what fails, narrow and stable
	What   string `json:"what"`   // human readable
	Replay string `json:"replay"` // path of the replay file
}

// Part is the per-batch result handed to the driver.
type Part struct {
	ID           string              `json:"id"`
	Batch        int                 `json:"batch"`
	Seed         int64               `json:"seed"`
	Tier         string              `json:"tier"`
	Evaluations  int64               `json:"evaluations"`
	Counters     map[string]int64    `json:"counters"`
	Sets         map[string][]string `json:"sets"` // named sets of short strings, unioned by the driver
	Samples      []any               `json:"samples"`
	Violations   []Violation         `json:"violations"`
	Inconclusive []string            `json:"inconclusive"`
	Skipped      map[string]int64    `json:"skipped"` // cases skipped because of another property's open defect
	WallS        float64             `json:"wall_s"`
	Exhaustive   bool                `json:"exhaustive"`
	Notes        []string            `json:"notes"`
	Done         bool                `json:"done"`
}

// Rec collects what a batch observed. All methods are safe for concurrent use.
type Rec struct {
	mu       sync.Mutex
	env      *Env
	part     Part
	distinct map[uint64]struct{}
	sets     map[string]map[string]struct{}
	vkeys    map[string]int
	maxSamp  int
	maxViol  int
}

// NewRec starts recording for env.
func NewRec(env *Env) *Rec {
	r := &Rec{env: env, distinct: map[uint64]struct{}{}, sets: map[string]map[string]struct{}{}, vkeys: map[string]int{}, maxSamp: 6, maxViol: 3}
	r.part = Part{ID: env.ID, Batch: env.Batch, Seed: env.Seed, Tier: env.Tier, Counters: map[string]int64{}, Skipped: map[string]int64{}}
	return r
}

// Eval counts one evaluated case.
func (r *Rec) Eval() { r.mu.Lock(); r.part.Evaluations++; r.mu.Unlock() }

// EvalN counts n evaluated cases.
func (r *Rec) EvalN(n int) { r.mu.Lock(); r.part.Evaluations += int64(n); r.mu.Unlock() }

// Count adds n to a named observation counter.
func (r *Rec) Count(name string, n int) {
	r.mu.Lock()
	r.part.Counters[name] += int64(n)
	r.mu.Unlock()
}

// Max raises a named counter to at least v.
func (r *Rec) Max(name string, v int) {
	r.mu.Lock()
	if r.part.Counters[name] < int64(v) {
		r.part.Counters[name] = int64(v)
	}
	r.mu.Unlock()
}

// Get reads a counter.
func (r *Rec) Get(name string) int64 { r.mu.Lock(); defer r.mu.Unlock(); return r.part.Counters[name] }

// Skip counts a case skipped because of another property's open defect.
func (r *Rec) Skip(reason string) { r.mu.Lock(); r.part.Skipped[reason]++; r.mu.Unlock() }

// Hash64 hashes a normalised case description.
func Hash64(s string) uint64 { h := fnv.New64a(); _, _ = h.Write([]byte(s)); return h.Sum64() }

// Nontrivial records the normalised description of a case that is non-trivial by the check's rule;
// distinctness is decided by its hash (merged across batches by the driver).
func (r *Rec) Nontrivial(norm string) {
	h := Hash64(norm)
	r.mu.Lock()
	r.distinct[h] = struct{}{}
	r.mu.Unlock()
}

// SetAdd adds an element to a named set (distinct lock orders, boundary calls hit, …).
func (r *Rec) SetAdd(set, elem string) {
	r.mu.Lock()
	m := r.sets[set]
	if m == nil {
		m = map[string]struct{}{}
		r.sets[set] = m
	}
	if len(m) < 20000 {
		m[elem] = struct{}{}
	}
	r.mu.Unlock()
}

// SetLen returns the size of a named set.
func (r *Rec) SetLen(set string) int { r.mu.Lock(); defer r.mu.Unlock(); return len(r.sets[set]) }

// Sample keeps a few actual cases for the evidence file.
func (r *Rec) Sample(v any) {
	r.mu.Lock()
	if len(r.part.Samples) < r.maxSamp {
		r.part.Samples = append(r.part.Samples, v)
	}
	r.mu.Unlock()
}

// SampleCap changes how many samples are kept.
func (r *Rec) SampleCap(n int) { r.mu.Lock(); r.maxSamp = n; r.mu.Unlock() }

// Note adds a free-text note to the evidence.
func (r *Rec) Note(format string, a ...any) {
	r.mu.Lock()
	if len(r.part.Notes) < 50 {
		r.part.Notes = append(r.part.Notes, fmt.Sprintf(format, a...))
	}
	r.mu.Unlock()
}

// Inconclusive records a reason why this batch could not decide.
func (r *Rec) Inconclusive(format string, a ...any) {
	r.mu.Lock()
	if len(r.part.Inconclusive) < 20 {
		r.part.Inconclusive = append(r.part.Inconclusive, fmt.Sprintf(format, a...))
	}
	r.mu.Unlock()
}

// SetExhaustive marks the batch as having enumerated a finite space completely.
func (r *Rec) SetExhaustive(b bool) { r.mu.Lock(); r.part.Exhaustive = b; r.mu.Unlock() }

// Violation records a witness: key is the finding key, replay any JSON-serialisable object that
// re-executes exactly this case (self-contained, never "seed + index"). At most maxViol replay
// files are written per key; further witnesses of the same key are only counted.
func (r *Rec) Violation(key, what string, replay any) {
	r.mu.Lock()
	defer r.mu.Unlock()
	r.vkeys[key]++
	r.part.Counters["witness:"+key]++
	if r.vkeys[key] > r.maxViol {
		return
	}
	dir := filepath.Join(r.env.Verif, "replays", r.env.ID)
	_ = os.MkdirAll(dir, 0o755)
	name := fmt.Sprintf("%s-%016x.json", sanitize(key), Hash64(fmt.Sprintf("%v|%s", replay, what)))
	path := filepath.Join(dir, name)
	body := map[string]any{"property": r.env.ID, "key": key, "what": what, "seed": r.env.Seed, "tier": r.env.Tier, "batch": r.env.Batch, "case": replay}
	b, err := json.MarshalIndent(body, "", " ")
	if err != nil {
		b = []byte(fmt.Sprintf(`{"property":%q,"key":%q,"what":%q,"marshal_error":%q}`, r.env.ID, key, what, err.Error()))
	}
	_ = os.WriteFile(path, b, 0o644)
	r.part.Violations = append(r.part.Violations, Violation{Key: key, What: what, Replay: path})
	r.flushLocked(false)
}

// NViolations returns the number of witnesses recorded so far.
func (r *Rec) NViolations() int {
	r.mu.Lock()
	defer r.mu.Unlock()
	n := 0
	for _, c := range r.vkeys {
		n += c
	}
	return n
}

func sanitize(s string) string {
	b := []byte(s)
	for i, c := range b {
		if !(c >= 'a' && c <= 'z' || c >= 'A' && c <= 'Z' || c >= '0' && c <= '9' || c == '-' || c == '.') {
			b[i] = '_'
		}
	}
	if len(b) > 80 {
		b = b[:80]
	}
	return string(b)
}

// Flush writes the part file (also called on every violation so that a later crash of the child
// does not lose witnesses).
func (r *Rec) Flush() { r.mu.Lock(); r.flushLocked(false); r.mu.Unlock() }

// Finish writes the final part file.
func (r *Rec) Finish() { r.mu.Lock(); r.flushLocked(true); r.mu.Unlock() }

func (r *Rec) flushLocked(done bool) {
	r.part.Done = done
	r.part.WallS = time.Since(r.env.started).Seconds()
	r.part.Sets = map[string][]string{}
	for k, m := range r.sets {
		l := make([]string, 0, len(m))
		for e := range m {
			l = append(l, e)
		}
		sort.Strings(l)
		r.part.Sets[k] = l
	}
	b, _ := json.Marshal(r.part)
	tmp := filepath.Join(r.env.Out, fmt.Sprintf("part-%d.json.tmp", r.env.Batch))
	_ = os.WriteFile(tmp, b, 0o644)
	_ = os.Rename(tmp, filepath.Join(r.env.Out, fmt.Sprintf("part-%d.json", r.env.Batch)))
	if done {
		hb := make([]byte, 0, 8*len(r.distinct))
		for h := range r.distinct {
			hb = binary.LittleEndian.AppendUint64(hb, h)
		}
		_ = os.WriteFile(filepath.Join(r.env.Out, fmt.Sprintf("distinct-%d.bin", r.env.Batch)), hb, 0o644)
	}
}

// Journal appends one line describing the case about to be executed, so that the driver can name
// the culprit when the child dies (panic in a foreign goroutine, OOM, watchdog).
type Journal struct {
	f *os.File
}

// OpenJournal opens the journal of this batch.
func OpenJournal(env *Env) *Journal {
	f, _ := os.OpenFile(filepath.Join(env.Out, fmt.Sprintf("journal-%d.jsonl", env.Batch)), os.O_CREATE|os.O_WRONLY|os.O_TRUNC, 0o644)
	return &Journal{f: f}
}

// Put overwrites the journal with the case about to run (only the last one matters).
func (j *Journal) Put(v any) {
	if j == nil || j.f == nil {
		return
	}
	b, _ := json.Marshal(v)
	_, _ = j.f.Seek(0, 0)
	_ = j.f.Truncate(0)
	_, _ = j.f.Write(append(b, '\n'))
}

// Clear empties the journal (no case in flight).
func (j *Journal) Clear() {
	if j == nil || j.f == nil {
		return
	}
	_, _ = j.f.Seek(0, 0)
	_ = j.f.Truncate(0)
}

// ReadReplay loads the "case" member of a replay file into v.
func ReadReplay(path string, v any) error {
	b, err := os.ReadFile(path)
	if err != nil {
		return err
	}
	var w struct {
		Case json.RawMessage `json:"case"`
	}
	if err := json.Unmarshal(b, &w); err != nil {
		return err
	}
	return json.Unmarshal(w.Case, v)
}
