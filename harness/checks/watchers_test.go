package checks

// C26 at its consumer: two REAL node-status watchers (selfmon.RunNodeStatusWatcher), each on a Calcium instance of its
// own (instances A and B on one metadata store, one boundary: every store / resource-manager call is tagged with the
// instance that made it). The active watcher's registration (/selfmon/active) is made to lapse by revoking its lease
// while the other one is waiting; afterwards a node's heartbeat is removed. At most one watcher may still believe it
// is the active one: the node-down handling (SetNode with workloads down -> store writes) must come from ONE instance.

import (
	"context"
	"fmt"
	"sort"
	"strings"
	"testing"
	"time"

	clientv3 "go.etcd.io/etcd/client/v3"

	"github.com/projecteru2/core/selfmon"
	"github.com/projecteru2/core/types"

	"verifharness/sim"
	"verifharness/vkit"
)

type c26WatchersCase struct {
	Round      int      `json:"round"`
	RevokeWait int      `json:"ms_between_start_of_second_watcher_and_revoke"`
	Actors     []string `json:"instances_that_handled_the_node_down_event,omitempty"`
	Events     []string `json:"events,omitempty"`
}

func c26Watchers(t *testing.T, env *vkit.Env, rec *vkit.Rec) {
	b := sim.NewBoundary()
	a := sim.Boot(t, b, sim.BootOpts{Inst: "A"}, nil)
	bb := sim.Boot(t, b, sim.BootOpts{Inst: "B"}, a)
	cli := a.EtcdClient()
	ctx := context.Background()
	r := env.Rand("c26-watchers")
	cfg := a.Cfg
	cfg.ConnectionTimeout = 50 * time.Millisecond
	cfg.HAKeepaliveInterval = 6 * time.Second // heartbeat every 2 s; a waiting watcher retries every second

	activeLease := func() clientv3.LeaseID {
		resp, err := cli.Get(ctx, selfmon.ActiveKey)
		if err != nil || len(resp.Kvs) == 0 {
			return 0
		}
		return clientv3.LeaseID(resp.Kvs[0].Lease)
	}
	waitLease := func(not clientv3.LeaseID, patience time.Duration) clientv3.LeaseID {
		deadline := time.Now().Add(patience)
		for time.Now().Before(deadline) {
			if l := activeLease(); l != 0 && l != not {
				return l
			}
			time.Sleep(20 * time.Millisecond)
		}
		return 0
	}

	rounds := env.Pick(2, 8)
	for round := 0; round < rounds; round++ {
		cs := &c26WatchersCase{Round: round, RevokeWait: 200 + r.Intn(900)}
		a.WaitQuiet(10 * time.Second)
		a.WipeEtcd()
		sim.ResetAllHosts()
		b.ResetLog()
		a.Locks.Reset()
		topo := &sim.Topology{Pods: []string{"pa"}, Nodes: []sim.NodeSpec{{Name: "n1", Pod: "pa", Cores: 4, Memory: 8 << 30, Up: true}, {Name: "n10", Pod: "pa", Cores: 4, Memory: 8 << 30, Up: true}}}
		if err := a.Install(topo); err != nil {
			rec.Inconclusive("install: %v", err)
			return
		}
		rec.Eval()
		model := sim.NewModel()
		res := a.Exec(model, sim.Op{Kind: "create", App: "app", Entry: "web", Pod: "pa", Strategy: "AUTO", Count: 2, Includes: []string{"n1"}, Res: sim.Res{CPU: 0.2, Memory: 1 << 24}}, "setup")
		metas := []*types.StatusMeta{}
		for _, p := range res.Parts {
			if p.OK {
				metas = append(metas, &types.StatusMeta{ID: p.ID, Running: true, Healthy: true})
			}
		}
		if len(metas) == 0 {
			rec.Inconclusive("no workload created")
			return
		}
		if _, err := a.C.SetWorkloadsStatus(a.Ctx("agent"), metas, nil); err != nil {
			rec.Inconclusive("status: %v", err)
			return
		}
		a.WaitQuiet(10 * time.Second)

		actx, acancel := context.WithCancel(a.Ctx("watcher-A"))
		bctx, bcancel := context.WithCancel(bb.Ctx("watcher-B"))
		adone, bdone := make(chan struct{}), make(chan struct{})
		stop := func() {
			acancel()
			bcancel()
			for _, d := range []chan struct{}{adone, bdone} {
				select {
				case <-d:
				case <-time.After(20 * time.Second):
				}
			}
		}
		go func() { defer close(adone); selfmon.RunNodeStatusWatcher(actx, cfg, a.C, t) }()
		first := waitLease(0, 10*time.Second)
		if first == 0 {
			rec.Inconclusive("the first watcher did not become active")
			stop()
			return
		}
		go func() { defer close(bdone); selfmon.RunNodeStatusWatcher(bctx, cfg, bb.C, t) }()
		time.Sleep(time.Duration(cs.RevokeWait) * time.Millisecond) // the second watcher is in its acquisition loop now
		if _, err := cli.Revoke(ctx, first); err != nil {
			rec.Inconclusive("revoke: %v", err)
			stop()
			return
		}
		rec.Count("watchers/active_registration_lapsed", 1)
		second := waitLease(first, 15*time.Second)
		if second == 0 {
			rec.Inconclusive("nobody re-registered the active key within 15 s of the lapse")
			stop()
			return
		}
		// whoever holds the key now: let the other one come to rest (its next heartbeat tick tells it about the lapse)
		time.Sleep(3 * time.Second)
		seq0 := b.Seq()
		n1, err := a.Raw.GetNode(ctx, "n1")
		if err == nil {
			err = a.Raw.SetNodeStatus(ctx, n1, -1) // the node's heartbeat disappears
		}
		if err != nil {
			rec.Inconclusive("cannot remove the node status: %v", err)
			stop()
			return
		}
		// the active watcher reports the node's workloads down
		deadline := time.Now().Add(20 * time.Second)
		for time.Now().Before(deadline) {
			up := 0
			for _, m := range metas {
				if st, err := a.Raw.GetWorkloadStatus(ctx, m.ID); err == nil && st != nil && (st.Running || st.Healthy) {
					up++
				}
			}
			if up == 0 {
				break
			}
			time.Sleep(50 * time.Millisecond)
		}
		time.Sleep(1500 * time.Millisecond) // a second actor would act on the same stream message at about the same time
		actors := map[string]bool{}
		for _, e := range b.EventsSince(seq0) {
			if e.Ret || e.Layer != "store" {
				continue
			}
			if e.Op == "SetWorkloadStatus" || e.Op == "UpdateNodes" {
				actors[e.Inst] = true
				if len(cs.Events) < 40 {
					cs.Events = append(cs.Events, fmt.Sprintf("%s %s.%s(%s)", e.Inst, e.Layer, e.Op, e.Arg))
				}
			}
		}
		for inst := range actors {
			cs.Actors = append(cs.Actors, inst)
		}
		sort.Strings(cs.Actors)
		stop()
		rec.Count("watchers/node_down_events_handled_by/"+strings.Join(cs.Actors, "+"), 1)
		switch len(cs.Actors) {
		case 0:
			rec.Count("watchers/node_down_event_not_handled_in_time", 1) // C28's subject, not judged here
		case 1:
			rec.Count("watchers/rounds_with_a_single_active_watcher", 1)
			rec.Nontrivial(fmt.Sprintf("watchers round %d batch %d", round, env.Batch))
		default:
			rec.Violation("etcd/selfmon-watchers/two-watchers-act-as-the-active-one",
				fmt.Sprintf("after the active watcher's registration lapsed and the key was re-registered, the node-down event of n1 was handled by the watchers of instances %v: a watcher whose registration lapsed still believes it is the active one", cs.Actors), cs)
			return
		}
	}
}
