package checks

// C20 — cluster operations take locks in one global order (lockdep-style monitor on the lock shim).
// C21 — node selection yields exactly the filtered set of distinct nodes (observed at the resource manager).

import (
	"time"
	"context"
	"fmt"
	"math/rand"
	"sort"
	"strings"
	"testing"

	plugintypes "github.com/projecteru2/core/resource/plugins/types"
	resourcetypes "github.com/projecteru2/core/resource/types"

	coretypes "github.com/projecteru2/core/types"

	"verifharness/sim"
	"verifharness/vkit"
)

func lockClass(key string) string {
	switch {
	case strings.HasPrefix(key, "cnode_op_"):
		return "node-op"
	case strings.HasPrefix(key, "plock_"):
		return "pod"
	case strings.HasPrefix(key, "clock_"):
		return "workload"
	}
	return "other"
}

// lockDiscipline judges one acquisition attempt against the global order.
func lockDiscipline(ev sim.LockEvent) (key, what string) {
	cls := lockClass(ev.Key)
	for _, h := range ev.Held {
		hc := lockClass(h)
		switch {
		case cls == "node-op":
			return "node-op-lock-requested-while-holding-" + hc, fmt.Sprintf("node-operation lock %s requested while holding %v", ev.Key, ev.Held)
		case hc == "node-op":
			return cls + "-lock-requested-while-holding-node-op", fmt.Sprintf("%s requested while holding node-operation lock %s", ev.Key, h)
		case cls == "pod" && hc == "workload":
			return "pod-lock-after-workload-lock", fmt.Sprintf("pod lock %s requested while holding workload lock %s", ev.Key, h)
		case cls == "pod" && hc == "pod" && h >= ev.Key:
			if h == ev.Key {
				return "pod-lock-repeated", fmt.Sprintf("pod lock %s requested while already holding it", ev.Key)
			}
			return "pod-locks-not-ascending", fmt.Sprintf("pod lock %s requested while holding %s", ev.Key, h)
		case cls == "workload" && hc == "workload" && h >= ev.Key:
			if h == ev.Key {
				return "workload-lock-repeated", fmt.Sprintf("workload lock %.14s requested while already holding it", ev.Key)
			}
			return "workload-locks-not-ascending", fmt.Sprintf("workload lock %.14s requested while holding %.14s", ev.Key, h)
		}
	}
	return "", ""
}

// findCycle looks for a cycle in the union held->acquired graph.
func findCycle(edges map[string]int) []string {
	adj := map[string][]string{}
	for e := range edges {
		p := strings.Split(e, " -> ")
		adj[p[0]] = append(adj[p[0]], p[1])
	}
	color := map[string]int{}
	var stack []string
	var cyc []string
	var dfs func(n string) bool
	dfs = func(n string) bool {
		color[n] = 1
		stack = append(stack, n)
		for _, m := range adj[n] {
			if color[m] == 1 {
				for i, s := range stack {
					if s == m {
						cyc = append(append([]string{}, stack[i:]...), m)
						return true
					}
				}
			}
			if color[m] == 0 && dfs(m) {
				return true
			}
		}
		stack = stack[:len(stack)-1]
		color[n] = 2
		return false
	}
	keys := []string{}
	for n := range adj {
		keys = append(keys, n)
	}
	sort.Strings(keys)
	for _, n := range keys {
		if color[n] == 0 && dfs(n) {
			return cyc
		}
	}
	return nil
}

// hostileFilter fills the node filter of an op with include lists in random order, with repeats, across pods.
func hostileIncludes(r *rand.Rand, topo *sim.Topology) []string {
	k := 1 + r.Intn(len(topo.Nodes)+1)
	inc := []string{}
	for i := 0; i < k; i++ {
		inc = append(inc, topo.Nodes[r.Intn(len(topo.Nodes))].Name)
	}
	return inc
}

func genC20Op(r *rand.Rand, topo *sim.Topology) sim.Op {
	picks := func(n int) []int {
		p := []int{}
		for i := 0; i < n; i++ {
			p = append(p, r.Intn(1000))
		}
		return p
	}
	switch r.Intn(14) {
	case 0, 1, 2:
		op := sim.GenCreate(r, topo)
		if r.Intn(2) == 0 {
			op.Includes = hostileIncludes(r, topo)
			op.Excludes, op.Labels = nil, nil
			op.Strategy, op.Limit = "AUTO", 0
		}
		return op
	case 3:
		return sim.Op{Kind: "remove", Picks: picks(1 + r.Intn(4))}
	case 4:
		return sim.Op{Kind: "dissociate", Picks: picks(1 + r.Intn(3))}
	case 5:
		return sim.Op{Kind: "realloc", Picks: picks(1), Res: sim.Res{Keep: true, Memory: 1 << 20}}
	case 6:
		return sim.Op{Kind: "replace", Picks: picks(1 + r.Intn(3)), App: "app", Entry: "web"}
	case 7:
		return sim.Op{Kind: "control", Picks: picks(1 + r.Intn(4)), Control: []string{"stop", "start", "restart"}[r.Intn(3)]}
	case 8:
		return sim.Op{Kind: "send", Picks: picks(1 + r.Intn(3)), Files: map[string]int{"/etc/x": 10}}
	case 9:
		return sim.Op{Kind: "set-node", Node: topo.Nodes[r.Intn(len(topo.Nodes))].Name, Labels: map[string]string{"zone": "q"}}
	case 10:
		op := sim.Op{Kind: "capacity", App: "app", Entry: "web", Pod: topo.Pods[0], Strategy: []string{"DUMMY", "AUTO"}[r.Intn(2)], Res: sim.Res{CPU: 0.5, Memory: 1 << 20}, Count: 1}
		op.Includes = hostileIncludes(r, topo)
		return op
	case 11:
		return sim.Op{Kind: "node-resource", Node: topo.Nodes[r.Intn(len(topo.Nodes))].Name}
	case 12:
		return sim.Op{Kind: "remove-node", Node: topo.Nodes[r.Intn(len(topo.Nodes))].Name} // fails unless empty: still takes its locks
	default:
		return sim.Op{Kind: "remove-pod", Pod: "pempty"}
	}
}

func TestC20(t *testing.T) {
	env := vkit.Load("C20")
	rec := vkit.NewRec(env)
	defer rec.Finish()
	w := newWorld(t, env, rec, false)
	r := env.Rand("c20")
	// odd batches: a small worker pool that the harness saturates around realloc / set-node operations, so that the
	// non-blocking pool REFUSES the asynchronous follow-up tasks (the remap) of the operation: whatever the operation
	// does instead must still respect the lock order
	smallPool := env.NBatch > 1 && env.Batch%2 == 1
	if smallPool {
		b := sim.NewBoundary()
		cl := sim.Boot(t, b, sim.BootOpts{MaxConcurrency: 400}, nil)
		w = &world{t: t, env: env, rec: rec, b: b, cl: cl, model: sim.NewModel()}
	}
	// saturate fills the pool with blocked tasks until it refuses; it returns the release function
	saturate := func() func() {
		release := make(chan struct{})
		n := 0
		// fill until the pool refuses, then make sure it STAYS full: a lingering task of an earlier operation that
		// ends a moment later would free a worker, the operation's remap task would be accepted and its inner task
		// refused - core then leaves the remap waiting forever on a channel nobody closes, holding the node-operation
		// lock (observed: later waits of the harness ran into their patience until the watchdog fired)
		for stable := 0; stable < 3; {
			if err := w.cl.C.VerifPoolInvoke(func() { <-release }); err != nil {
				stable++
				time.Sleep(20 * time.Millisecond)
				continue
			}
			stable = 0
			n++
			if n > 5000 {
				break
			}
		}
		rec.Count("pool_saturations", 1)
		rec.Max("max:pool_workers_occupied", n)
		return func() { close(release) }
	}

	run := func(hc *histCase) {
		if err := w.rebuild(hc.Topology, hc.Setup); err != nil {
			rec.Inconclusive("rebuild failed: %v", err)
			return
		}
		rec.Eval()
		w.cl.Locks.Reset()
		for i, op := range hc.Ops {
			var release func()
			if smallPool && (op.Kind == "realloc" || op.Kind == "set-node") && hc.Saturate[i%len(hc.Saturate)] {
				// nothing of the previous operation may still be on its way to the pool: a remap task that was
				// submitted but has not run yet is invisible to the quiescence test, and if it starts after the pool
				// was filled its inner task is refused and core leaves it waiting forever (holding the node-operation lock)
				w.cl.WaitQuiet(quietPatience)
				time.Sleep(400 * time.Millisecond)
				if !w.cl.WaitQuiet(quietPatience) {
					rec.Count("histories_abandoned_cluster_not_quiet", 1)
					return
				}
				release = saturate()
				rec.Count("ops_under_saturated_pool/"+op.Kind, 1)
			}
			res := w.exec(op, nil)
			if release != nil {
				release()
				if !w.cl.WaitQuiet(quietPatience) {
					// a lock is still held although nothing runs: the remap got stuck (see above); the rest of this history
					// would only burn the patience of every wait - it is abandoned, the lock order seen so far was judged
					rec.Count("histories_abandoned_cluster_not_quiet", 1)
					return
				}
			}
			rec.Count("ops/"+op.Kind, 1)
			if res.TimedOut {
				rec.Skip("operation stream did not close (reported under C12/C29)")
				return
			}
			evs, edges := w.cl.Locks.Snapshot()
			for _, ev := range evs {
				if !strings.HasPrefix(ev.Op, "attempt") {
					continue
				}
				rec.Count("lock_attempts", 1)
				if len(ev.Held) > 0 {
					rec.Count("nested_lock_attempts", 1)
					held := []string{}
					for _, h := range ev.Held {
						held = append(held, lockClass(h))
					}
					rec.SetAdd("held_to_acquired_classes", strings.Join(held, "+")+" -> "+lockClass(ev.Key))
				}
				if key, what := lockDiscipline(ev); key != "" {
					hc.FailedAt = i
					if key == "pod-locks-not-ascending" && len(op.Includes) > 0 {
						key = "pod-locks/include-order"
					}
					rec.Violation(op.Kind+"/"+key, fmt.Sprintf("%s — during %s", what, op.String()), hc)
					return
				}
			}
			for e := range edges {
				p := strings.Split(e, " -> ")
				rec.SetAdd("edges_by_class", lockClass(p[0])+" -> "+lockClass(p[1]))
			}
			if cyc := findCycle(edges); cyc != nil {
				hc.FailedAt = i
				rec.Violation("lock-graph/cycle", fmt.Sprintf("cycle in the observed held->acquired graph: %v", cyc), hc)
				return
			}
		}
		rec.Nontrivial(fmt.Sprintf("%v", hc.Ops))
		rec.Sample(map[string]any{"ops": opsBrief(hc.Ops)})
	}

	if env.Replay != "" {
		var hc histCase
		if err := vkit.ReadReplay(env.Replay, &hc); err != nil {
			t.Fatal(err)
		}
		run(&hc)
		return
	}
	nh := env.Pick(24, 400) / env.NBatch
	if nh < 2 {
		nh = 2
	}
	for i := 0; i < nh; i++ {
		topo := sim.GenTopology(r, true)
		// always two pods with nodes in both, so that include lists can span pods; every other topology has three pods
		// with a PRNG-drawn assignment (runs of nodes whose pod sorts after that of later nodes: the pod-lock keys of a
		// selection in node-name order are then far from sorted)
		if len(topo.Pods) == 1 {
			topo.Pods = append(topo.Pods, "pb")
		}
		for j := range topo.Nodes {
			topo.Nodes[j].Pod = topo.Pods[j%2]
		}
		if i%2 == 1 {
			topo.Pods = []string{"pa", "pb", "pc"}
			for j := range topo.Nodes {
				topo.Nodes[j].Pod = topo.Pods[r.Intn(3)]
			}
			topo.Nodes[0].Pod, topo.Nodes[len(topo.Nodes)-1].Pod = "pc", "pa"
			rec.Count("three_pod_topologies", 1)
		}
		topo.Pods = append(topo.Pods, "pempty")
		hc := &histCase{Topology: topo, Mode: "lock-order", Saturate: []bool{r.Intn(2) == 0, r.Intn(2) == 0, true}}
		for j := 0; j < 2+r.Intn(3); j++ {
			c := sim.GenCreate(r, topo)
			c.Strategy, c.Limit, c.Labels, c.Excludes = "AUTO", 0, nil, nil
			c.Pod = topo.Pods[j%2]
			hc.Setup = append(hc.Setup, c)
		}
		for j := 0; j < 12+r.Intn(12); j++ {
			hc.Ops = append(hc.Ops, genC20Op(r, topo))
			if j%6 == 0 { // a selection of every node (in a PRNG order, one repeated): all the pod locks in one helper
				all := sim.Op{Kind: "capacity", App: "app", Entry: "web", Pod: topo.Pods[0], Strategy: "DUMMY", Res: sim.Res{CPU: 0.1, Memory: 1 << 20}, Count: 1}
				for _, k := range r.Perm(len(topo.Nodes)) {
					all.Includes = append(all.Includes, topo.Nodes[k].Name)
				}
				all.Includes = append(all.Includes, all.Includes[0])
				hc.Ops = append(hc.Ops, all)
				// and the whole cluster without naming anything: no pod, no include list
				hc.Ops = append(hc.Ops, sim.Op{Kind: "capacity", App: "app", Entry: "web", Pod: "", Strategy: "DUMMY", Res: sim.Res{CPU: 0.1, Memory: 1 << 20}, Count: 1})
			}
		}
		run(hc)
	}
}

// ---- C21 --------------------------------------------------------------------------------------

type selectCase struct {
	Topology *sim.Topology `json:"topology"`
	Op       sim.Op        `json:"op"`
	Store    string        `json:"store"`
	Got      []string      `json:"got,omitempty"`
	Want     []string      `json:"want,omitempty"`
	// Via: where the selection is observed. "" = the node list a capacity calculation hands to the resource manager
	// (behind calcium's locked-nodes helper); "list-image" = the nodes ListImage reports on (the node filter's result
	// used directly, as the image operations do)
	Via string `json:"via,omitempty"`
}

// referenceSelection is the harness's model of the property.
func referenceSelection(topo *sim.Topology, op sim.Op) []string {
	set := map[string]bool{}
	if len(op.Includes) > 0 {
		for _, n := range op.Includes {
			set[n] = true
		}
	} else {
		ex := map[string]bool{}
		for _, n := range op.Excludes {
			ex[n] = true
		}
		for _, n := range topo.Nodes {
			if n.Pod != op.Pod || ex[n.Name] {
				continue
			}
			okLabels := true
			for k, v := range op.Labels {
				if have, ok := n.Labels[k]; !ok || have != v { // "carries the label": the key is there, with that value
					okLabels = false
				}
			}
			if !okLabels {
				continue
			}
			if !op.All && (!n.Up || n.Bypass) {
				continue
			}
			set[n.Name] = true
		}
	}
	out := []string{}
	for n := range set {
		out = append(out, n)
	}
	sort.Strings(out)
	return out
}

func TestC21(t *testing.T) {
	env := vkit.Load("C21")
	rec := vkit.NewRec(env)
	defer rec.Finish()
	redis := env.Batch%2 == 1
	var rc selectCase
	if env.Replay != "" {
		if err := vkit.ReadReplay(env.Replay, &rc); err != nil {
			t.Fatal(err)
		}
		redis = rc.Store == "redis"
	}
	storeName := map[bool]string{false: "etcd", true: "redis"}[redis]
	w := newWorld(t, env, rec, redis)
	r := env.Rand("c21")

	var observed [][]string
	w.cl.Rmgr.OnCapacity = func(names []string, _ resourcetypes.Resources, _ map[string]*plugintypes.NodeDeployCapacity, _ int, _ error) {
		observed = append(observed, append([]string(nil), names...))
	}

	judge := func(sc *selectCase) {
		observed = nil
		res := w.exec(sc.Op, nil)
		rec.Eval()
		want := referenceSelection(sc.Topology, sc.Op)
		sc.Want = want
		if len(observed) == 0 {
			// the operation never reached the resource manager: legitimate only when nothing is selected
			if len(want) == 0 {
				rec.Count("empty_selections", 1)
				return
			}
			sc.Got = nil
			rec.Violation(storeName+"/"+selectionClass(sc)+"/nothing-selected", fmt.Sprintf("the operation selected no node (%s), the filter selects %v — %s", resBrief(res), want, sc.Op.String()), sc)
			return
		}
		names := observed[0]
		sort.Strings(names)
		sc.Got = names
		rec.Count("selections_observed/"+storeName, 1)
		dup := false
		for i := 1; i < len(names); i++ {
			if names[i] == names[i-1] {
				dup = true
			}
		}
		cls := selectionClass(sc)
		rec.SetAdd("filter_classes/"+storeName, cls)
		if len(want) >= 2 || len(sc.Op.Includes) > len(want) {
			rec.Nontrivial(fmt.Sprintf("%s/%v/%v", storeName, sc.Op, sc.Topology))
			rec.Sample(map[string]any{"store": storeName, "filter": sc.Op.String(), "selected": names})
		}
		if dup {
			rec.Violation(storeName+"/"+cls+"/node-selected-twice", fmt.Sprintf("selected %v — %s", names, sc.Op.String()), sc)
			return
		}
		if strings.Join(names, ",") != strings.Join(want, ",") {
			rec.Violation(storeName+"/"+cls+"/wrong-node-set", fmt.Sprintf("acted on %v, the filter selects %v — %s; nodes: %s", names, want, sc.Op.String(), nodesBrief(sc.Topology)), sc)
		}
	}

	// the same filter through an operation that uses the filter's result directly (ListImage reports once per node
	// it acted on; CacheImage and RemoveImage walk the same slice)
	judgeImages := func(sc *selectCase) {
		rec.Eval()
		want := referenceSelection(sc.Topology, sim.Op{Pod: sc.Op.Pod, Includes: sc.Op.Includes})
		sc.Want = want
		ch, err := w.cl.C.ListImage(w.cl.Ctx("list-image"), &coretypes.ImageOptions{Podname: sc.Op.Pod, Nodenames: sc.Op.Includes})
		names := []string{}
		if err == nil {
			for m := range ch {
				names = append(names, m.Nodename)
			}
		}
		w.cl.WaitQuiet(5 * time.Second)
		sort.Strings(names)
		sc.Got = names
		cls := selectionClass(sc)
		if err != nil {
			if len(want) == 0 {
				rec.Count("empty_selections", 1)
				return
			}
			rec.Violation(storeName+"/list-image/"+cls+"/nothing-selected", fmt.Sprintf("ListImage failed (%v), the filter selects %v — pod %s includes %v", err, want, sc.Op.Pod, sc.Op.Includes), sc)
			return
		}
		rec.Count("selections_observed_via_list_image/"+storeName, 1)
		for i := 1; i < len(names); i++ {
			if names[i] == names[i-1] {
				rec.Violation(storeName+"/list-image/"+cls+"/node-selected-twice", fmt.Sprintf("ListImage acted on %v — pod %s includes %v", names, sc.Op.Pod, sc.Op.Includes), sc)
				return
			}
		}
		if strings.Join(names, ",") != strings.Join(want, ",") {
			rec.Violation(storeName+"/list-image/"+cls+"/wrong-node-set", fmt.Sprintf("ListImage acted on %v, the filter selects %v — pod %s includes %v; nodes: %s", names, want, sc.Op.Pod, sc.Op.Includes, nodesBrief(sc.Topology)), sc)
			return
		}
		if len(want) >= 2 || len(sc.Op.Includes) > len(want) {
			rec.Nontrivial(fmt.Sprintf("%s/list-image/%v/%v", storeName, sc.Op, sc.Topology))
		}
	}

	if env.Replay != "" {
		if err := w.rebuild(rc.Topology, nil); err != nil {
			t.Fatal(err)
		}
		if rc.Via == "list-image" {
			judgeImages(&rc)
		} else {
			judge(&rc)
		}
		return
	}
	nt := env.Pick(16, 240) / ((env.NBatch + 1) / 2)
	if nt < 2 {
		nt = 2
	}
	for i := 0; i < nt; i++ {
		topo := sim.GenTopology(r, false)
		if len(topo.Pods) == 1 && r.Intn(2) == 0 {
			topo.Pods = append(topo.Pods, "pb")
			topo.Nodes[len(topo.Nodes)-1].Pod = "pb"
		}
		// make sure there is a bypassed-but-alive, a bypassed-and-down and a plain down node now and then
		if len(topo.Nodes) >= 3 && r.Intn(2) == 0 {
			topo.Nodes[0].Up, topo.Nodes[0].Bypass = true, true
			topo.Nodes[1].Up, topo.Nodes[1].Bypass = false, false
		}
		for k := range topo.Nodes {
			if r.Intn(3) == 0 {
				topo.Nodes[k].Labels["gpu"] = "" // the key is there, its value is empty
			}
		}
		if err := w.rebuild(topo, nil); err != nil {
			rec.Inconclusive("rebuild failed: %v", err)
			continue
		}
		// a bypassed node that is also down: drop its status key after the bypass was set
		for _, n := range topo.Nodes {
			if n.Bypass && r.Intn(3) == 0 {
				if node, err := w.cl.Raw.GetNode(context.Background(), n.Name); err == nil {
					_ = w.cl.Raw.SetNodeStatus(context.Background(), node, -1)
					for j := range topo.Nodes {
						if topo.Nodes[j].Name == n.Name {
							topo.Nodes[j].Up = false
						}
					}
				}
			}
		}
		for j := 0; j < 24; j++ {
			op := sim.Op{Kind: "capacity", App: "app", Entry: "web", Strategy: "DUMMY", Count: 1, Res: sim.Res{CPU: 0.1, Memory: 1 << 20}, Pod: topo.Pods[r.Intn(len(topo.Pods))]}
			switch r.Intn(6) {
			case 0, 1:
				op.Includes = hostileIncludes(r, topo)
				// an include list wins over everything else in the filter: exclude lists that overlap it (partly, fully,
				// with further names), labels, the all flag
				switch r.Intn(6) {
				case 0:
					op.Excludes = []string{op.Includes[r.Intn(len(op.Includes))]}
				case 1:
					op.Excludes = append(append([]string{}, op.Includes...), topo.Nodes[r.Intn(len(topo.Nodes))].Name)
				case 2:
					op.Labels = map[string]string{"zone": []string{"a", "b"}[r.Intn(2)]}
				}
			case 2:
				op.Excludes = []string{topo.Nodes[r.Intn(len(topo.Nodes))].Name}
				if r.Intn(2) == 0 {
					op.Excludes = append(op.Excludes, topo.Nodes[r.Intn(len(topo.Nodes))].Name)
				}
			case 3:
				op.Labels = map[string]string{"zone": []string{"a", "b"}[r.Intn(2)]}
				if r.Intn(3) == 0 {
					op.Labels["disk"] = "ssd"
				}
				switch r.Intn(4) { // labels whose value is the empty string: only nodes that really carry the key qualify
				case 0:
					op.Labels = map[string]string{"gpu": ""}
				case 1:
					op.Labels["gpu"] = ""
				}
			case 4:
				op.All = true
			}
			if r.Intn(4) == 0 {
				op.All = true
			}
			judge(&selectCase{Topology: topo, Op: op, Store: storeName})
			if len(op.Excludes) == 0 && len(op.Labels) == 0 && !op.All {
				judgeImages(&selectCase{Topology: topo, Op: sim.Op{Kind: "list-image", Pod: op.Pod, Includes: op.Includes}, Store: storeName, Via: "list-image"})
			}
		}
	}
}

func selectionClass(sc *selectCase) string {
	op := sc.Op
	switch {
	case len(op.Includes) > 0 && len(op.Excludes) > 0:
		return "includes-and-overlapping-excludes"
	case len(op.Includes) > 0 && len(op.Labels) > 0:
		return "includes-and-labels"
	case len(op.Includes) > 0:
		seen := map[string]bool{}
		rep := false
		for _, n := range op.Includes {
			if seen[n] {
				rep = true
			}
			seen[n] = true
		}
		if rep {
			return "includes-with-repeats"
		}
		if !sort.StringsAreSorted(op.Includes) {
			return "includes-unsorted"
		}
		return "includes"
	case len(op.Excludes) > 0:
		return "excludes"
	case len(op.Labels) > 0:
		return "labels"
	case op.All:
		return "pod-all"
	}
	return "pod"
}

func nodesBrief(t *sim.Topology) string {
	s := []string{}
	for _, n := range t.Nodes {
		s = append(s, fmt.Sprintf("%s(pod=%s up=%v bypass=%v labels=%v)", n.Name, n.Pod, n.Up, n.Bypass, n.Labels))
	}
	return strings.Join(s, " ")
}
