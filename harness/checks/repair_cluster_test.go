package checks

// C15 at the cluster API (last batch of a run): calcium.NodeResource(fix) on a node whose usage has drifted, WHILE an
// operation on one of the node's workloads is running, under the serialising random scheduler of C22 (every
// meta.KV call of the store, every resource-manager / engine / WAL call is a step). The repair sums the workloads
// it listed; whatever the other operation does to the node in the meantime must not be lost or counted twice.

import (
	"context"
	"fmt"
	"math/rand"
	"sort"
	"strings"
	"sync"
	"testing"
	"time"

	"github.com/projecteru2/core/resource/plugins"
	resourcetypes "github.com/projecteru2/core/resource/types"

	"verifharness/sim"
	"verifharness/vkit"
)

type repairClusterCase struct {
	Topology *sim.Topology `json:"topology"`
	Setup    []sim.Op      `json:"setup"`
	Node     string        `json:"node"`
	DriftMem int64         `json:"memory_drift"` // bytes added to the node's recorded usage before the repair (0 = none)
	Other    sim.Op        `json:"concurrent_operation"`
	Seed     int64         `json:"scheduler_seed"`
	Trace    []string      `json:"schedule,omitempty"`
}

func c15Cluster(t *testing.T, env *vkit.Env, rec *vkit.Rec, replay *repairClusterCase) {
	w := newWorld(t, env, rec, false)
	ctx := context.Background()
	w.cl.InstallKVShim()
	sched := sim.NewSched(w.b, "kv", "rmgr", "engine", "wal")
	defer sched.Close()
	r := env.Rand("c15-cluster")

	run := func(cs *repairClusterCase) {
		if err := w.rebuild(cs.Topology, cs.Setup); err != nil {
			rec.Inconclusive("rebuild failed: %v", err)
			return
		}
		rec.Eval()
		ids := []string{}
		for id, n := range w.model.Live {
			if n == cs.Node {
				ids = append(ids, id)
			}
		}
		sort.Strings(ids)
		if len(ids) == 0 {
			rec.Count("cluster/no_workload_on_the_node", 1)
			return
		}
		other := cs.Other
		other.IDs = []string{ids[0]}
		if cs.DriftMem != 0 {
			// the drift: usage the workloads do not account for, written through the resource manager
			if _, _, err := w.cl.Rmgr.Real.SetNodeResourceUsage(ctx, cs.Node, resourcetypes.Resources{"cpumem": {"memory": cs.DriftMem}}, nil, nil, true, plugins.Incr); err != nil {
				rec.Inconclusive("cannot write the drift: %v", err)
				return
			}
		}
		ops := []sim.Op{{Kind: "node-repair", Node: cs.Node}, other}
		w.cl.WaitQuiet(quietPatience)
		w.b.Arm(nil)
		sched.Enable(rand.New(rand.NewSource(cs.Seed)))
		var wg sync.WaitGroup
		results := make([]*sim.Result, len(ops))
		for j := range ops {
			wg.Add(1)
			go func(j int) {
				defer wg.Done()
				results[j] = w.cl.Exec(w.model, ops[j], fmt.Sprintf("x%d:%s", j, ops[j].Kind))
			}(j)
		}
		wg.Wait()
		w.cl.WaitQuiet(20 * time.Second)
		cs.Trace = sched.Disable()
		w.cl.WaitQuiet(quietPatience)
		w.b.Disarm()
		for j, res := range results {
			if res.TimedOut {
				rec.Skip("operation stream did not close (reported under C12/C29)")
				return
			}
			if ops[j].Kind != "node-repair" {
				w.model.Apply(ops[j], res)
			}
		}
		rec.Count("cluster/repairs_concurrent_with/"+other.Kind, 1)
		rec.Count("cluster/schedule_steps", len(cs.Trace))
		if !results[0].AnyFailed() {
			rec.Count("cluster/repairs_succeeded", 1)
		}
		snap := w.cl.Snapshot(ctx)
		if probs := problemsOf(w.cl.CheckInvariants(ctx, snap), "usage-mismatch"); len(probs) > 0 {
			// the drift is only gone when the repair succeeded
			if results[0].AnyFailed() && cs.DriftMem != 0 {
				rec.Count("cluster/repair_failed_drift_remains", 1)
				return
			}
			rec.Violation("cluster/repair-concurrent-with-"+other.Kind+"/usage-differs-from-recorded-workloads",
				fmt.Sprintf("after NodeResource(fix) on %s ran concurrently with %s: %s", cs.Node, other.String(), probs[0].What), cs)
			return
		}
		if nr, err := w.cl.C.NodeResource(w.cl.Ctx("check"), cs.Node, false); err == nil {
			for _, d := range nr.Diffs {
				if !strings.Contains(d, "inspect failed") {
					rec.Violation("cluster/repair-concurrent-with-"+other.Kind+"/check-still-reports-differences", fmt.Sprintf("after the repair the check reports %q", d), cs)
					return
				}
			}
		}
		rec.Nontrivial(fmt.Sprintf("cluster %s %v %d", other.Kind, cs.Setup, cs.Seed))
	}

	if replay != nil {
		for i := 0; i < 8 && rec.NViolations() == 0; i++ {
			replay.Trace = nil
			run(replay)
		}
		return
	}
	n := env.Pick(40, 400)
	for i := 0; i < n; i++ {
		topo := sim.GenTopology(r, true)
		node := topo.Nodes[r.Intn(len(topo.Nodes))]
		cs := &repairClusterCase{Topology: topo, Node: node.Name, Seed: r.Int63()}
		for k := 1 + r.Intn(3); k > 0; k-- {
			cs.Setup = append(cs.Setup, sim.Op{Kind: "create", App: "app", Entry: "web", Pod: node.Pod, Strategy: "AUTO", Count: 1, Includes: []string{node.Name},
				Res: sim.Res{Bind: r.Intn(2) == 0, CPU: []float64{0.3, 0.5, 1}[r.Intn(3)], Memory: 1 << 24}})
		}
		if r.Intn(2) == 0 {
			cs.DriftMem = int64(1+r.Intn(8)) << 20
		}
		switch r.Intn(7) {
		case 5, 6:
			cs.Other = sim.Op{Kind: "replace", App: "app", Entry: "web"}
		case 0, 1:
			cs.Other = sim.Op{Kind: "dissociate"}
		case 2:
			cs.Other = sim.Op{Kind: "remove"}
		case 3:
			cs.Other = sim.Op{Kind: "realloc", Res: sim.Res{Keep: true, Memory: 1 << 22}}
		default:
			cs.Other = sim.Op{Kind: "control", Control: "stop"}
		}
		run(cs)
	}
}
