package checks

// C34 — concurrent API use is free of data races (Go race detector).
//
// The whole stack — real rpc.Vibranium over an in-process gRPC connection, real Calcium, etcd store, cpumem plugin,
// bbolt WAL, in-memory engines — is built with -race and driven by many client goroutines issuing create
// (multi-node, multi-instance, with instances whose engine create fails), remove (ids spanning nodes), dissociate,
// realloc, control, send, status set / get / stream, list and node calls. The race detector's reports are written
// to a log (GORACE log_path, halt_on_error=0) and classified by the driver: a report counts against the property
// when at least one of the two accesses is in non-test core code.

import (
	"context"
	"encoding/json"
	"fmt"
	"io"
	"math/rand"
	"net"
	"sync"
	"sync/atomic"
	"testing"
	"time"

	"google.golang.org/grpc"
	"google.golang.org/grpc/credentials/insecure"
	"google.golang.org/grpc/test/bufconn"

	"github.com/projecteru2/core/rpc"
	pb "github.com/projecteru2/core/rpc/gen"

	"verifharness/sim"
	"verifharness/vkit"
)

func TestC34(t *testing.T) {
	env := vkit.Load("C34")
	rec := vkit.NewRec(env)
	defer rec.Finish()
	// no recording shims and a pass-through boundary: the harness's own mutexes (event log, lock table) would order
	// core's goroutines for the race detector and hide races
	b := sim.NewBoundary()
	b.Passthrough = 1
	cl := sim.Boot(t, b, sim.BootOpts{NoShims: true}, nil)
	w := &world{t: t, env: env, rec: rec, b: b, cl: cl, model: sim.NewModel()}
	r := env.Rand("c34")

	lis := bufconn.Listen(4 << 20)
	stop := make(chan struct{})
	vib := rpc.New(w.cl.C, w.cl.Cfg, stop)
	srv := grpc.NewServer()
	pb.RegisterCoreRPCServer(srv, vib)
	go func() { _ = srv.Serve(lis) }()
	defer srv.Stop()
	conn, err := grpc.Dial("bufnet", grpc.WithContextDialer(func(context.Context, string) (net.Conn, error) { return lis.Dial() }), grpc.WithTransportCredentials(insecure.NewCredentials()))
	if err != nil {
		t.Fatal(err)
	}
	defer conn.Close()
	cli := pb.NewCoreRPCClient(conn)

	topo := &sim.Topology{Pods: []string{"pa", "pb"}}
	for i := 0; i < 4; i++ {
		// two pods: operations whose ids span both do not meet at one pod lock
		topo.Nodes = append(topo.Nodes, sim.NodeSpec{Name: fmt.Sprintf("n%d", i), Pod: []string{"pa", "pb"}[i/2], Cores: 16, Memory: 64 << 30, Up: true})
	}
	rounds := env.Pick(3, 6)
	workers := env.Pick(16, 24)
	opsPerWorker := env.Pick(25, 50)
	var maxInflight, inflight int64

	for round := 0; round < rounds; round++ {
		w.cl.WipeEtcd()
		sim.ResetAllHosts()
		if err := w.cl.Install(topo); err != nil {
			rec.Inconclusive("install: %v", err)
			return
		}
		rec.Eval()
		for _, n := range topo.Nodes {
			sim.GetHost(sim.Prefix + n.Name).FailCreateEvery = 2
			sim.GetHost(sim.Prefix + n.Name).SetCopyBehaviour(func(_, path string) sim.CopyBehaviour {
				if path == "/partial" {
					return sim.CopyBehaviour{Mode: "partial", ReadBytes: 1000}
				}
				return sim.CopyBehaviour{Mode: "ok"}
			})
		}
		// one node's daemon needs 150 ms for Info: node listings with a shorter deadline end while it is still answering
		atomic.StoreInt64(&sim.GetHost(sim.Prefix+"n3").InfoDelayNs, int64(150*time.Millisecond))
		var mu sync.Mutex
		live := []string{}
		pick := func(rr *rand.Rand, k int) []string {
			mu.Lock()
			defer mu.Unlock()
			out := []string{}
			for i := 0; i < k && len(live) > 0; i++ {
				out = append(out, live[rr.Intn(len(live))])
			}
			return out
		}
		forget := func(id string) {
			mu.Lock()
			for i, x := range live {
				if x == id {
					live = append(live[:i], live[i+1:]...)
					break
				}
			}
			mu.Unlock()
		}
		res := func(cpu float64, bind bool) map[string][]byte {
			m := map[string]any{"cpu-request": cpu, "cpu-limit": cpu, "memory-request": 1 << 24, "memory-limit": 1 << 24}
			if bind {
				m["cpu-bind"] = true
			}
			b, _ := json.Marshal(m)
			return map[string][]byte{"cpumem": b}
		}
		var wg sync.WaitGroup
		for g := 0; g < workers; g++ {
			wg.Add(1)
			seed := r.Int63()
			go func(g int) {
				defer wg.Done()
				rr := rand.New(rand.NewSource(seed))
				for k := 0; k < opsPerWorker; k++ {
					ctx, cancel := context.WithTimeout(context.Background(), 60*time.Second)
					n := atomic.AddInt64(&inflight, 1)
					for {
						m := atomic.LoadInt64(&maxInflight)
						if n <= m || atomic.CompareAndSwapInt64(&maxInflight, m, n) {
							break
						}
					}
					op := "create"
					if k > 2 {
						op = []string{"create", "create", "remove", "dissociate", "realloc", "realloc", "control", "send", "status-set", "status-get", "list", "list-nodes", "get-workloads", "status-stream", "node-resource", "capacity",
							"replace", "set-node", "get-node", "pod-resource", "node-status", "node-status-stream", "service-status", "copy", "log-stream", "run-and-wait", "list-node-workloads", "spare-node", "pods", "execute"}[rr.Intn(30)]
					}
					switch op {
					case "create":
						st, err := cli.CreateWorkload(ctx, &pb.DeployOptions{Name: "app", Entrypoint: &pb.EntrypointOptions{Name: "web"}, Podname: []string{"pa", "pb"}[rr.Intn(2)], Image: "img", Count: int32(3 + rr.Intn(6)),
							DeployStrategy: pb.DeployOptions_AUTO, Resources: res(float64(1+rr.Intn(100))/100, rr.Intn(2) == 0), Env: []string{"A=1"}, Labels: map[string]string{"g": fmt.Sprint(g)}})
						if err == nil {
							for {
								m, err := st.Recv()
								if err != nil {
									break
								}
								if m.Success && m.Id != "" {
									mu.Lock()
									live = append(live, m.Id)
									mu.Unlock()
								}
							}
						}
					case "remove":
						ids := pick(rr, 2+rr.Intn(5))
						if len(ids) == 0 {
							break
						}
						if st, err := cli.RemoveWorkload(ctx, &pb.RemoveWorkloadOptions{IDs: ids, Force: true}); err == nil {
							for {
								m, err := st.Recv()
								if err != nil {
									break
								}
								if m.Success {
									forget(m.Id)
								}
							}
						}
					case "dissociate":
						ids := pick(rr, 1)
						if len(ids) == 0 {
							break
						}
						if st, err := cli.DissociateWorkload(ctx, &pb.DissociateWorkloadOptions{IDs: ids}); err == nil {
							for {
								m, err := st.Recv()
								if err != nil {
									break
								}
								if m.Error == "" {
									forget(m.Id)
								}
							}
						}
					case "realloc":
						ids := pick(rr, 1)
						if len(ids) == 0 {
							break
						}
						b, _ := json.Marshal(map[string]any{"cpu-request": 0.1, "cpu-limit": 0.1, "memory-request": 1 << 20, "memory-limit": 1 << 20, "keep-cpu-bind": rr.Intn(2) == 0})
						_, _ = cli.ReallocResource(ctx, &pb.ReallocOptions{Id: ids[0], Resources: map[string][]byte{"cpumem": b}})
					case "control":
						ids := pick(rr, 2)
						if len(ids) == 0 {
							break
						}
						if st, err := cli.ControlWorkload(ctx, &pb.ControlWorkloadOptions{IDs: ids, Type: []string{"stop", "start", "restart"}[rr.Intn(3)], Force: true}); err == nil {
							for {
								if _, err := st.Recv(); err != nil {
									break
								}
							}
						}
					case "send":
						ids := pick(rr, 2)
						if len(ids) == 0 {
							break
						}
						// one send in three goes to a path the engines reject after a partial read, or names a workload that
						// does not exist: transfers that fail while more chunks of the file are still to come
						path := "/f"
						switch rr.Intn(6) {
						case 0:
							path = "/partial"
						case 1:
							ids = append(ids, "0000000000000000000000000000000000000000000000000000000000000bad")
						}
						if st, err := cli.Send(ctx, &pb.SendOptions{IDs: ids, Data: map[string][]byte{path: make([]byte, 5000+rr.Intn(30000))}, Modes: map[string]*pb.FileMode{path: {Mode: 0o644}}, Owners: map[string]*pb.FileOwner{path: {Uid: 1, Gid: 1}}}); err == nil {
							for {
								if _, err := st.Recv(); err != nil {
									break
								}
							}
						}
					case "status-set":
						ids := pick(rr, 2)
						if len(ids) == 0 {
							break
						}
						sts := []*pb.WorkloadStatus{}
						for _, id := range ids {
							sts = append(sts, &pb.WorkloadStatus{Id: id, Running: true, Healthy: rr.Intn(2) == 0, Ttl: int64(rr.Intn(2) * 60)})
						}
						_, _ = cli.SetWorkloadsStatus(ctx, &pb.SetWorkloadsStatusOptions{Status: sts})
					case "status-get":
						if ids := pick(rr, 2); len(ids) > 0 {
							_, _ = cli.GetWorkloadsStatus(ctx, &pb.WorkloadIDs{IDs: ids})
						}
					case "list":
						if st, err := cli.ListWorkloads(ctx, &pb.ListWorkloadsOptions{Appname: "app"}); err == nil {
							for {
								if _, err := st.Recv(); err != nil {
									break
								}
							}
						}
					case "list-nodes":
						lctx, lcancel := ctx, context.CancelFunc(func() {})
						if rr.Intn(2) == 0 { // an impatient caller
							lctx, lcancel = context.WithTimeout(ctx, time.Duration(20+rr.Intn(60))*time.Millisecond)
							rec.Count("list_nodes_with_short_deadline", 1)
						}
						if st, err := cli.ListPodNodes(lctx, &pb.ListNodesOptions{Podname: "pa", All: true}); err == nil {
							for {
								if _, err := st.Recv(); err != nil {
									break
								}
							}
						}
						lcancel()
					case "get-workloads":
						if ids := pick(rr, 3); len(ids) > 0 {
							_, _ = cli.GetWorkloads(ctx, &pb.WorkloadIDs{IDs: ids})
						}
					case "status-stream":
						sctx, scancel := context.WithTimeout(ctx, 150*time.Millisecond)
						if st, err := cli.WorkloadStatusStream(sctx, &pb.WorkloadStatusStreamOptions{Appname: "app"}); err == nil {
							for {
								if _, err := st.Recv(); err != nil || err == io.EOF {
									break
								}
							}
						}
						scancel()
					case "node-resource":
						_, _ = cli.GetNodeResource(ctx, &pb.GetNodeResourceOptions{Opts: &pb.GetNodeOptions{Nodename: fmt.Sprintf("n%d", rr.Intn(4))}})
					case "replace":
						ids := pick(rr, 1+rr.Intn(2))
						if len(ids) == 0 {
							break
						}
						if st, err := cli.ReplaceWorkload(ctx, &pb.ReplaceOptions{IDs: ids, DeployOpt: &pb.DeployOptions{Name: "app", Entrypoint: &pb.EntrypointOptions{Name: "web"}, Podname: "pa", Image: "img2", Count: 1,
							DeployStrategy: pb.DeployOptions_AUTO, Resources: res(float64(1+rr.Intn(100))/100, rr.Intn(2) == 0)}}); err == nil {
							for {
								m, err := st.Recv()
								if err != nil {
									break
								}
								if m.Error == "" && m.Remove != nil && m.Create != nil && m.Create.Id != "" {
									forget(m.Remove.Id)
									mu.Lock()
									live = append(live, m.Create.Id)
									mu.Unlock()
									rec.Count("effective/replace", 1)
								}
							}
						}
					case "set-node":
						o := &pb.SetNodeOptions{Nodename: fmt.Sprintf("n%d", rr.Intn(4)), Labels: map[string]string{"zone": fmt.Sprint(rr.Intn(3))}}
						switch rr.Intn(4) {
						case 0:
							b, _ := json.Marshal(map[string]any{"memory": 1 << 20})
							o.Resources, o.Delta = map[string][]byte{"cpumem": b}, true
						case 1:
							o.WorkloadsDown = true
						}
						if _, err := cli.SetNode(ctx, o); err == nil {
							rec.Count("effective/set-node", 1)
						}
					case "get-node":
						_, _ = cli.GetNode(ctx, &pb.GetNodeOptions{Nodename: fmt.Sprintf("n%d", rr.Intn(4))})
						_, _ = cli.GetNodeEngineInfo(ctx, &pb.GetNodeOptions{Nodename: fmt.Sprintf("n%d", rr.Intn(4))})
					case "pod-resource":
						if st, err := cli.GetPodResource(ctx, &pb.GetPodOptions{Name: "pa"}); err == nil {
							for {
								if _, err := st.Recv(); err != nil {
									break
								}
							}
						}
					case "node-status":
						n := fmt.Sprintf("n%d", rr.Intn(4))
						_, _ = cli.SetNodeStatus(ctx, &pb.SetNodeStatusOptions{Nodename: n, Ttl: int64(1 + rr.Intn(3))})
						_, _ = cli.GetNodeStatus(ctx, &pb.GetNodeStatusOptions{Nodename: n})
					case "node-status-stream":
						sctx, scancel := context.WithTimeout(ctx, 150*time.Millisecond)
						if st, err := cli.NodeStatusStream(sctx, &pb.Empty{}); err == nil {
							for {
								if _, err := st.Recv(); err != nil {
									break
								}
							}
						}
						scancel()
					case "service-status":
						sctx, scancel := context.WithTimeout(ctx, 150*time.Millisecond)
						if st, err := cli.WatchServiceStatus(sctx, &pb.Empty{}); err == nil {
							for {
								if _, err := st.Recv(); err != nil {
									break
								}
							}
						}
						scancel()
					case "copy":
						ids := pick(rr, 2)
						if len(ids) == 0 {
							break
						}
						tg := map[string]*pb.CopyPaths{}
						for _, id := range ids {
							tg[id] = &pb.CopyPaths{Paths: []string{"/f", "/missing"}}
						}
						if st, err := cli.Copy(ctx, &pb.CopyOptions{Targets: tg}); err == nil {
							for {
								m, err := st.Recv()
								if err != nil {
									break
								}
								if m.Error == "" {
									rec.Count("effective/copy", 1)
								}
							}
						}
					case "log-stream":
						if ids := pick(rr, 1); len(ids) > 0 {
							if st, err := cli.LogStream(ctx, &pb.LogStreamOptions{Id: ids[0], Tail: "10"}); err == nil {
								for {
									m, err := st.Recv()
									if err != nil {
										break
									}
									if m.Error == "" {
										rec.Count("effective/log-stream", 1)
									}
								}
							}
						}
					case "run-and-wait":
						if st, err := cli.RunAndWait(ctx); err == nil {
							_ = st.Send(&pb.RunAndWaitOptions{DeployOptions: &pb.DeployOptions{Name: "job", Entrypoint: &pb.EntrypointOptions{Name: "run", Commands: []string{"true"}}, Podname: "pa", Image: "img", Count: int32(1 + rr.Intn(2)),
								DeployStrategy: pb.DeployOptions_AUTO, Resources: res(0.05, false)}})
							_ = st.CloseSend()
							for {
								m, err := st.Recv()
								if err != nil {
									break
								}
								if m.WorkloadId != "" {
									rec.Count("effective/run-and-wait", 1)
								}
							}
						}
					case "list-node-workloads":
						_, _ = cli.ListNodeWorkloads(ctx, &pb.GetNodeOptions{Nodename: fmt.Sprintf("n%d", rr.Intn(4))})
					case "spare-node":
						// a node of its own that nobody deploys to by name: added, looked at, removed
						n := fmt.Sprintf("spare%d", g)
						sim.NewHost(n, 4, 10<<30)
						b, _ := json.Marshal(map[string]any{"cpu": 4, "memory": 8 << 30})
						if _, err := cli.AddNode(ctx, &pb.AddNodeOptions{Nodename: n, Endpoint: sim.Prefix + n, Podname: "pb", Resources: map[string][]byte{"cpumem": b}}); err == nil {
							_, _ = cli.GetNode(ctx, &pb.GetNodeOptions{Nodename: n})
							if _, err := cli.RemoveNode(ctx, &pb.RemoveNodeOptions{Nodename: n}); err == nil {
								rec.Count("effective/spare-node", 1)
							}
						}
					case "pods":
						_, _ = cli.ListPods(ctx, &pb.Empty{})
						_, _ = cli.GetPod(ctx, &pb.GetPodOptions{Name: "pa"})
						_, _ = cli.Info(ctx, &pb.Empty{})
					case "execute":
						if ids := pick(rr, 1); len(ids) > 0 {
							if st, err := cli.ExecuteWorkload(ctx); err == nil {
								_ = st.Send(&pb.ExecuteWorkloadOptions{WorkloadId: ids[0], Commands: []string{"ls"}})
								_ = st.CloseSend()
								for {
									m, err := st.Recv()
									if err != nil {
										break
									}
									if m != nil {
										rec.Count("effective/execute", 1)
									}
								}
							}
						}
					case "capacity":
						_, _ = cli.CalculateCapacity(ctx, &pb.DeployOptions{Name: "app", Entrypoint: &pb.EntrypointOptions{Name: "web"}, Podname: "pa", Image: "img", Count: 1, DeployStrategy: pb.DeployOptions_AUTO, Resources: res(0.5, false)})
					}
					atomic.AddInt64(&inflight, -1)
					cancel()
					rec.Count("ops/"+op, 1)
				}
			}(g)
		}
		wg.Wait()
		time.Sleep(1500 * time.Millisecond) // asynchronous remaps of the last operations
		rec.Count("rounds", 1)
		rec.Count("workloads_alive_at_round_end", len(live))
		rec.Nontrivial(fmt.Sprintf("round %d batch %d", round, env.Batch))
	}
	rec.Max("max:concurrent_api_calls_in_flight", int(atomic.LoadInt64(&maxInflight)))
	rec.Sample(map[string]any{"rounds": rounds, "client_goroutines": workers, "ops_per_goroutine": opsPerWorker})
}
