package checks

// C07 — reported deploy capacity equals what an allocation accepts (real cobalt.Manager + cpumem).
// C08 — plugin bookkeeping is exact and reversible over histories of alloc / realloc / release and rollbacks.

import (
	"context"
	"fmt"
	"math"
	"math/rand"
	"os"
	"strings"
	"sync"
	"testing"
	"time"

	"github.com/projecteru2/core/resource/cobalt"
	"github.com/projecteru2/core/resource/plugins"
	cpumemtypes "github.com/projecteru2/core/resource/plugins/cpumem/types"
	resourcetypes "github.com/projecteru2/core/resource/types"

	"verifharness/sim"
	"verifharness/vkit"
)

type mgrEnv struct {
	pe   *plugEnv
	mu   sync.Mutex
	mgrs map[string]*cobalt.Manager
	slots map[string]*sim.SlotsPlugin
}

func newMgrEnv(t *testing.T) *mgrEnv {
	return &mgrEnv{pe: newPlugEnv(t), mgrs: map[string]*cobalt.Manager{}}
}

func (me *mgrEnv) manager(shareBase, maxShare int) *cobalt.Manager {
	me.mu.Lock()
	defer me.mu.Unlock()
	k := fmt.Sprintf("%d/%d", shareBase, maxShare)
	if m, ok := me.mgrs[k]; ok {
		return m
	}
	m, err := cobalt.New(baseConfig(shareBase, maxShare))
	if err != nil {
		me.pe.t.Fatal(err)
	}
	if err := m.LoadPlugins(context.Background(), me.pe.t); err != nil {
		me.pe.t.Fatal(err)
	}
	me.mgrs[k] = m
	return m
}

// managerWithSecond is manager() plus the harness's second plugin, whose usage writes can be made to fail: the
// commit of a multi-plugin operation then fails after cpumem has written, and cobalt has to restore cpumem.
func (me *mgrEnv) managerWithSecond(shareBase, maxShare int) (*cobalt.Manager, *sim.SlotsPlugin) {
	me.mu.Lock()
	defer me.mu.Unlock()
	k := fmt.Sprintf("2nd/%d/%d", shareBase, maxShare)
	if m, ok := me.mgrs[k]; ok {
		return m, me.slots[k]
	}
	m, err := cobalt.New(baseConfig(shareBase, maxShare))
	if err != nil {
		me.pe.t.Fatal(err)
	}
	if err := m.LoadPlugins(context.Background(), me.pe.t); err != nil {
		me.pe.t.Fatal(err)
	}
	sl := sim.NewSlotsPlugin()
	m.AddPlugins(sl)
	me.mgrs[k] = m
	if me.slots == nil {
		me.slots = map[string]*sim.SlotsPlugin{}
	}
	me.slots[k] = sl
	return m, sl
}

func resOf(q wlRequest) resourcetypes.Resources { return resourcetypes.Resources{"cpumem": q.raw()} }

type capCase struct {
	Nodes map[string]*nodeState `json:"nodes"`
	Req   wlRequest             `json:"request"`
}

func TestC07(t *testing.T) {
	env := vkit.Load("C07")
	rec := vkit.NewRec(env)
	defer rec.Finish()
	me := newMgrEnv(t)
	jr := vkit.OpenJournal(env)
	ctx := context.Background()

	eval := func(c *capCase) {
		rec.Eval()
		jr.Put(c)
		defer jr.Clear()
		var any *nodeState
		names := []string{}
		for n, s := range c.Nodes {
			any = s
			names = append(names, n)
		}
		m := me.manager(any.ShareBase, any.MaxShare)
		pl := me.pe.plugin(any.ShareBase, any.MaxShare)
		install := func() bool {
			for n, s := range c.Nodes {
				if err := me.pe.install(pl, n, s); err != nil {
					rec.Count("generator_invalid_state", 1)
					return false
				}
			}
			return true
		}
		if !install() {
			return
		}
		opts := resOf(c.Req)
		caps, total, err := m.GetNodesDeployCapacity(ctx, names, opts)
		if err != nil {
			rec.Count("capacity_error", 1)
			return
		}
		rec.Count("capacity_calls", 1)
		eff := c.Req.effective()
		what := func() string { return fmt.Sprintf("request %s nodes %v", c.Req.norm(), normNodes(c.Nodes)) }
		sum := 0
		for n, nc := range caps {
			if _, ok := c.Nodes[n]; !ok {
				rec.Violation("capacity/unknown-node-offered", "node "+n+" offered but not asked for — "+what(), c)
				return
			}
			if nc.Capacity <= 0 {
				rec.Violation("capacity/zero-capacity-node-offered", fmt.Sprintf("node %s offered with capacity %d — %s", n, nc.Capacity, what()), c)
				return
			}
			if nc.Capacity == math.MaxInt || sum == math.MaxInt {
				sum = math.MaxInt
			} else {
				sum += nc.Capacity
			}
		}
		if total != sum {
			rec.Violation("capacity/total-not-saturating-sum", fmt.Sprintf("total %d, saturating sum of offered capacities %d — %s", total, sum, what()), c)
		}
		nontrivial := false
		for _, n := range names {
			capN := 0
			if nc, ok := caps[n]; ok {
				capN = nc.Capacity
			}
			probe := func(k int) error {
				wr, _, err := m.Alloc(ctx, n, k, opts)
				rec.Count("alloc_probes", 1)
				if err == nil {
					_ = m.RollbackAlloc(ctx, n, wr)
				}
				_ = me.pe.install(pl, n, c.Nodes[n])
				return err
			}
			switch {
			case capN == 0:
				if err := probe(1); err == nil {
					rec.Violation("capacity/unoffered-node-accepts-allocation", fmt.Sprintf("node %s is not offered but Alloc(1) succeeds — %s", n, what()), c)
				} else {
					rec.Count("probe_unoffered_refused", 1)
				}
			case capN == math.MaxInt:
				if err := probe(1000); err != nil {
					rec.Violation("capacity/unlimited-node-refuses-allocation", fmt.Sprintf("node %s reports unlimited capacity but Alloc(1000) fails: %v — %s", n, err, what()), c)
				}
				rec.Count("probe_unlimited", 1)
			default:
				nontrivial = true
				if capN <= 4096 {
					if err := probe(capN); err != nil {
						rec.Violation("capacity/alloc-of-reported-capacity-fails", fmt.Sprintf("node %s reports capacity %d but Alloc(%d) fails: %v — %s", n, capN, capN, err, what()), c)
					}
					if err := probe(capN + 1); err == nil {
						rec.Violation("capacity/alloc-above-reported-capacity-succeeds", fmt.Sprintf("node %s reports capacity %d but Alloc(%d) succeeds — %s", n, capN, capN+1, what()), c)
					}
					rec.Count("probe_cap_and_cap_plus_1", 1)
				}
				// memory-only: allocating k lowers the capacity by exactly k
				if !eff.Bind && eff.MemReq > 0 && capN <= 4096 {
					k := 1 + int(vkit.Hash64(c.Req.norm())%uint64(capN))
					wr, _, err := m.Alloc(ctx, n, k, opts)
					if err == nil {
						caps2, _, err2 := m.GetNodesDeployCapacity(ctx, []string{n}, opts)
						got := 0
						if err2 == nil {
							if nc, ok := caps2[n]; ok {
								got = nc.Capacity
							}
						}
						if got != capN-k {
							rec.Violation("capacity/memory-only-capacity-not-lowered-by-k", fmt.Sprintf("node %s capacity %d, after allocating %d it reports %d — %s", n, capN, k, got, what()), c)
						}
						rec.Count("memory_only_decrement_checks", 1)
						_ = m.RollbackAlloc(ctx, n, wr)
					}
					_ = me.pe.install(pl, n, c.Nodes[n])
				}
			}
		}
		if nontrivial {
			rec.Nontrivial(c.Req.norm() + fmt.Sprint(normNodes(c.Nodes)))
			rec.Sample(c)
		}
	}

	if env.Replay != "" {
		var c capCase
		if err := vkit.ReadReplay(env.Replay, &c); err != nil {
			t.Fatal(err)
		}
		for i := 0; i < 16; i++ {
			eval(&c)
		}
		return
	}
	r := env.Rand("c07")
	n := env.Pick(2500, 30000) / env.NBatch
	for i := 0; i < n; i++ {
		first := genNodeState(r, genOpts{maxCores: env.Pick(8, 16), oddShares: true, numa: true})
		c := &capCase{Nodes: map[string]*nodeState{"n0": first}}
		for j := 1; j < 1+r.Intn(3); j++ {
			s := genNodeState(r, genOpts{maxCores: 8, oddShares: true, numa: true, bases: []int{first.ShareBase}})
			s.MaxShare = first.MaxShare
			c.Nodes[fmt.Sprintf("n%d", j)] = s
		}
		c.Req = genRequest(r, first, r.Intn(2) == 0, true)
		eval(c)
	}
	// minimum-observation thresholds are run-level (all batches merged): MIN_OBSERVED in checks_table.py, applied by the driver
}

func normNodes(m map[string]*nodeState) []string {
	out := []string{}
	for _, n := range sortedKeysAny(m) {
		out = append(out, n+"="+m[n].norm())
	}
	return out
}

func sortedKeysAny[V any](m map[string]V) []string {
	mm := map[string]int{}
	for k := range m {
		mm[k] = 0
	}
	return sortedKeys(mm)
}

// ---- C08 ----------------------------------------------------------------------------------

type bkOp struct {
	Kind  string    `json:"kind"` // alloc | rollback-alloc | realloc | rollback-realloc | release
	Count int       `json:"count,omitempty"`
	Req   wlRequest `json:"request,omitempty"`
	Pick  int       `json:"pick,omitempty"` // index into the live list (mod len)
	// SecondFails: the operation runs on a manager with two plugins and the second plugin's usage write fails, i.e.
	// the commit fails after cpumem has written: the operation must fail and cobalt must restore cpumem's usage
	SecondFails bool `json:"second_plugin_commit_fails,omitempty"`
	// CallerGone: ... and the caller's context is cancelled at the moment the second plugin refuses (the undoing of
	// what the first plugin wrote must not depend on the caller still being there)
	CallerGone bool `json:"caller_context_cancelled_when_the_commit_fails,omitempty"`
}

type bkHistory struct {
	Node *nodeState `json:"node"`
	Ops  []bkOp     `json:"ops"`
}

type liveWL struct {
	id  int
	res resourcetypes.Resources
}

func sumLive(live []liveWL) (cpu float64, cpuMap map[string]int, mem int64, numa map[string]int64, err error) {
	cpuMap, numa = map[string]int{}, map[string]int64{}
	for _, w := range live {
		wr := &cpumemtypes.WorkloadResource{}
		if err = wr.Parse(w.res["cpumem"]); err != nil {
			return
		}
		cpu += wr.CPURequest
		for c, p := range wr.CPUMap {
			cpuMap[c] += p
		}
		mem += wr.MemoryRequest
		for n, m := range wr.NUMAMemory {
			numa[n] += m
		}
	}
	return
}

func diffUsage(info *cpumemtypes.NodeResourceInfo, cpu float64, cpuMap map[string]int, mem int64, numa map[string]int64) string {
	if math.Abs(info.Usage.CPU-cpu) > 1e-6 {
		return fmt.Sprintf("cpu: recorded %g, sum of live workloads %g", info.Usage.CPU, cpu)
	}
	keys := map[string]bool{}
	for c := range info.Usage.CPUMap {
		keys[c] = true
	}
	for c := range cpuMap {
		keys[c] = true
	}
	for c := range keys {
		if info.Usage.CPUMap[c] != cpuMap[c] {
			return fmt.Sprintf("core %s: recorded %d pieces, sum of live workloads %d", c, info.Usage.CPUMap[c], cpuMap[c])
		}
	}
	if info.Usage.Memory != mem {
		return fmt.Sprintf("memory: recorded %d, sum of live workloads %d", info.Usage.Memory, mem)
	}
	nk := map[string]bool{}
	for n := range info.Usage.NUMAMemory {
		nk[n] = true
	}
	for n := range numa {
		nk[n] = true
	}
	for n := range nk {
		if info.Usage.NUMAMemory[n] != numa[n] {
			return fmt.Sprintf("numa-memory[%s]: recorded %d, sum of live workloads %d", n, info.Usage.NUMAMemory[n], numa[n])
		}
	}
	return ""
}

func usageEqual(a, b *cpumemtypes.NodeResourceInfo) string {
	return diffUsage(a, b.Usage.CPU, map[string]int(b.Usage.CPUMap), b.Usage.Memory, map[string]int64(b.Usage.NUMAMemory))
}

func TestC08(t *testing.T) {
	env := vkit.Load("C08")
	rec := vkit.NewRec(env)
	defer rec.Finish()
	me := newMgrEnv(t)
	jr := vkit.OpenJournal(env)
	ctx := context.Background()
	node := "n0"

	run := func(h *bkHistory) {
		rec.Eval()
		jr.Put(h)
		defer jr.Clear()
		s := h.Node
		m := me.manager(s.ShareBase, s.MaxShare)
		var slots *sim.SlotsPlugin
		for _, op := range h.Ops {
			if op.SecondFails {
				m, slots = me.managerWithSecond(s.ShareBase, s.MaxShare)
				break
			}
		}
		pl := me.pe.plugin(s.ShareBase, s.MaxShare)
		if err := me.pe.install(pl, node, s); err != nil {
			rec.Count("generator_invalid_state", 1)
			return
		}
		if slots != nil {
			slots.Reset()
			if _, err := slots.AddNode(ctx, node, nil, nil); err != nil {
				rec.Inconclusive("second plugin: %v", err)
				return
			}
		}
		var live []liveWL
		nextID := 0
		nontrivial := false
		for step, op := range h.Ops {
			before, err := readInfo(pl, node)
			if err != nil {
				rec.Inconclusive("cannot read node record: %v", err)
				return
			}
			desc := fmt.Sprintf("step %d %s", step, op.Kind)
			rec.Count("ops/"+op.Kind, 1)
			octx := ctx // the context of the (real) manager calls of this step; ctx stays the harness's own
			if op.SecondFails {
				desc += " (commit fails in the second plugin)"
				slots.FailNextUsageWrites(1)
				slots.OnFailedUsageWrite = nil
				if op.CallerGone {
					desc += " and the caller's context is cancelled at that moment"
					cctx, cancel := context.WithCancel(ctx)
					defer cancel()
					octx = cctx
					slots.OnFailedUsageWrite = func() {
						// the plugins commit side by side: wait until the first plugin's write is in (its record differs from
						// the one read before the step), so that there is something to undo, then the caller goes away
						for i := 0; i < 150; i++ {
							if now, err := readInfo(pl, node); err == nil && usageEqual(now, before) != "" {
								rec.Count("failed_commits_with_the_caller_gone_after_the_first_plugin_wrote", 1)
								if os.Getenv("VERIF_C08_NODELAY") == "" {
									time.Sleep(20 * time.Millisecond) // ... and its call has returned
								}
								break
							}
							time.Sleep(2 * time.Millisecond)
						}
						cancel()
						rec.Count("failed_commits_with_the_caller_gone", 1)
					}
				}
			}
			// the cancellation can still catch the first plugin's own write in flight (applied by the store, reported as
			// failed to the plugin): whether that write happened is unknowable to the manager, no property covers it,
			// and the history ends there without a verdict
			interrupted := func(err error) bool {
				if op.CallerGone && err != nil && strings.Contains(err.Error(), context.Canceled.Error()) {
					rec.Count("failed_commits_with_the_caller_gone_whose_first_write_was_interrupted_not_judged", 1)
					return true
				}
				return false
			}
			switch op.Kind {
			case "alloc", "rollback-alloc":
				wr, _, err := m.Alloc(octx, node, op.Count, resOf(op.Req))
				if interrupted(err) {
					return
				}
				if err != nil {
					rec.Count("refused/"+op.Kind, 1)
					if op.SecondFails {
						nontrivial = true
						rec.Count("failed_commits/"+op.Kind, 1)
					}
					break
				}
				if op.SecondFails {
					rec.Violation("failed-commit/"+op.Kind+"/reported-success", desc+": the second plugin refused its usage write but Alloc returned no error", h)
					return
				}
				if op.Kind == "alloc" {
					for _, w := range wr {
						live = append(live, liveWL{id: nextID, res: w})
						nextID++
					}
				} else {
					nontrivial = true
					if err := m.RollbackAlloc(ctx, node, wr); err != nil {
						rec.Violation("rollback-alloc/failed", fmt.Sprintf("%s: rollback returned %v", desc, err), h)
						return
					}
					after, _ := readInfo(pl, node)
					if d := usageEqual(after, before); d != "" {
						rec.Violation("rollback-alloc/usage-not-restored", fmt.Sprintf("%s: %s (before vs after rollback)", desc, d), h)
						return
					}
				}
			case "realloc", "rollback-realloc":
				if len(live) == 0 {
					break
				}
				idx := op.Pick % len(live)
				_, delta, newRes, err := m.Realloc(octx, node, live[idx].res, resOf(op.Req))
				if interrupted(err) {
					return
				}
				if err != nil {
					rec.Count("refused/"+op.Kind, 1)
					if op.SecondFails {
						nontrivial = true
						rec.Count("failed_commits/"+op.Kind, 1)
					}
					break
				}
				if op.SecondFails {
					rec.Violation("failed-commit/"+op.Kind+"/reported-success", desc+": the second plugin refused its usage write but Realloc returned no error", h)
					return
				}
				if len(s.NUMA) > 0 {
					nontrivial = true
					rec.Count("reallocs_on_numa_node", 1)
				}
				if op.Kind == "realloc" {
					live[idx].res = newRes
				} else {
					nontrivial = true
					if err := m.RollbackRealloc(ctx, node, delta); err != nil {
						rec.Violation("rollback-realloc/failed", fmt.Sprintf("%s: rollback returned %v", desc, err), h)
						return
					}
					after, _ := readInfo(pl, node)
					if d := usageEqual(after, before); d != "" {
						rec.Violation("rollback-realloc/usage-not-restored", fmt.Sprintf("%s: %s (before vs after rollback)", desc, d), h)
						return
					}
				}
			case "release":
				if len(live) == 0 {
					break
				}
				idx := op.Pick % len(live)
				if _, _, err := m.SetNodeResourceUsage(octx, node, nil, nil, []resourcetypes.Resources{live[idx].res}, true, plugins.Decr); err != nil {
					if interrupted(err) {
						return
					}
					if op.SecondFails {
						nontrivial = true
						rec.Count("failed_commits/release", 1)
						break // the workload stays live, usage must be what it was
					}
					rec.Violation("release/failed", fmt.Sprintf("%s: releasing a live workload failed: %v", desc, err), h)
					return
				} else if op.SecondFails {
					rec.Violation("failed-commit/release/reported-success", desc+": the second plugin refused its usage write but the release returned no error", h)
					return
				}
				live = append(live[:idx], live[idx+1:]...)
			}
			if slots != nil {
				slots.FailNextUsageWrites(0) // the operation may have been refused before its commit
				slots.OnFailedUsageWrite = nil
			}
			// conservation after every step
			cpu, cpuMap, mem, numa, perr := sumLive(live)
			if perr != nil {
				rec.Inconclusive("cannot parse a workload resource: %v", perr)
				return
			}
			// the node may start with foreign usage: compare relative to the installed state
			after, err := readInfo(pl, node)
			if err != nil {
				rec.Inconclusive("cannot read node record: %v", err)
				return
			}
			base := s.info()
			for c, p := range base.Usage.CPUMap {
				cpuMap[c] += p
			}
			for n, v := range base.Usage.NUMAMemory {
				numa[n] += v
			}
			if d := diffUsage(after, cpu+base.Usage.CPU, cpuMap, mem+base.Usage.Memory, numa); d != "" {
				key := "conservation/" + op.Kind + "/usage-differs-from-sum-of-live-workloads"
				if (op.Kind == "realloc") && len(s.NUMA) > 0 && len(d) > 4 && d[:4] == "numa" {
					key = "realloc/numa-delta-lost"
				}
				rec.Violation(key, fmt.Sprintf("%s: %s — node %s", desc, d, s.norm()), h)
				return
			}
			rec.Count("conservation_checks", 1)
		}
		if nontrivial {
			rec.Nontrivial(fmt.Sprintf("%s/%v", s.norm(), h.Ops))
			rec.Sample(h)
		}
	}

	if env.Replay != "" {
		var h bkHistory
		if err := vkit.ReadReplay(env.Replay, &h); err != nil {
			t.Fatal(err)
		}
		for i := 0; i < 16; i++ {
			run(&h)
		}
		return
	}
	r := env.Rand("c08")
	n := env.Pick(600, 8000) / env.NBatch
	for i := 0; i < n; i++ {
		run(genBkHistory(r, env))
	}
	// minimum-observation thresholds are run-level (all batches merged): MIN_OBSERVED in checks_table.py, applied by the driver
}

func genBkHistory(r *rand.Rand, env *vkit.Env) *bkHistory {
	s := wholeShareNode(r, 8)
	if r.Intn(3) == 0 { // some foreign usage already on the node
		s2 := genNodeState(r, genOpts{maxCores: 8, numa: true, bases: []int{s.ShareBase}})
		s2.MaxShare = s.MaxShare
		s = s2
	}
	h := &bkHistory{Node: s}
	nops := 5 + r.Intn(36)
	base := float64(s.ShareBase)
	for i := 0; i < nops; i++ {
		op := bkOp{Pick: r.Intn(1000)}
		switch k := r.Intn(10); {
		case k < 3:
			op.Kind = "alloc"
		case k < 4:
			op.Kind = "rollback-alloc"
		case k < 7:
			op.Kind = "realloc"
		case k < 8:
			op.Kind = "rollback-realloc"
		default:
			op.Kind = "release"
		}
		switch op.Kind {
		case "alloc", "rollback-alloc":
			op.Count = 1 + r.Intn(3)
			op.Req = genRequest(r, s, r.Intn(3) != 0, false)
			if op.Req.MemReq > 400 {
				op.Req.MemReq = int64(r.Intn(4)) * 100
				op.Req.MemLim = op.Req.MemReq
			}
		case "realloc", "rollback-realloc":
			d := wlRequest{}
			switch r.Intn(5) {
			case 0: // grow
				d.CPUReq = float64(1+r.Intn(s.ShareBase)) / base
			case 1: // shrink
				d.CPUReq = -float64(1+r.Intn(s.ShareBase/2)) / base
			case 2: // bind
				d.Bind = true
			case 3: // unbind
				d.Bind = false
			default: // keep
				d.KeepBind = true
				if r.Intn(2) == 0 {
					d.CPUReq = float64(r.Intn(s.ShareBase)) / base
				}
			}
			if r.Intn(2) == 0 && !d.KeepBind {
				d.KeepBind = r.Intn(2) == 0
			}
			d.CPULim = d.CPUReq
			d.MemReq = int64(r.Intn(5)-2) * 50
			d.MemLim = d.MemReq
			op.Req = d
		}
		h.Ops = append(h.Ops, op)
	}
	if r.Intn(3) == 0 { // a history on a two-plugin manager in which some commits fail in the second plugin
		for i := range h.Ops {
			if k := h.Ops[i].Kind; (k == "alloc" || k == "realloc" || k == "release") && r.Intn(4) == 0 {
				h.Ops[i].SecondFails = true
				h.Ops[i].CallerGone = r.Intn(2) == 0
			}
		}
	}
	return h
}
