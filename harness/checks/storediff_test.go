package checks

// C23 — the etcd and redis metadata stores behave identically.
//
// One generated sequence of store operations is executed step by step against the real etcdv3.Mercury (embedded
// etcd) and the real redis.Rediaron (miniredis). After every step the monitor compares success/failure, the
// normalised result of the step, and a normalised snapshot of the observable metadata read back through the
// store API. Around every create operation that fails a RAW dump of the back end (all keys and values) is compared
// with the dump taken before it: a failed create must leave the store unchanged.

import (
	"context"
	"encoding/json"
	"fmt"
	"math/rand"
	"sort"
	"strings"
	"testing"

	clientv3 "go.etcd.io/etcd/client/v3"

	enginefactory "github.com/projecteru2/core/engine/factory"
	"github.com/projecteru2/core/store"
	"github.com/projecteru2/core/types"
	"github.com/projecteru2/core/utils"

	"verifharness/sim"
	"verifharness/vkit"
)

type sOp struct {
	Kind   string            `json:"kind"`
	Pod    string            `json:"pod,omitempty"`
	Node   string            `json:"node,omitempty"`
	Nodes  []string          `json:"nodes,omitempty"`
	W      string            `json:"workload,omitempty"`
	Ws     []string          `json:"workloads,omitempty"`
	App    string            `json:"app,omitempty"`
	Entry  string            `json:"entry,omitempty"`
	Labels map[string]string `json:"labels,omitempty"`
	All    bool              `json:"all,omitempty"`
	Limit  int64             `json:"limit,omitempty"`
	TTL    int64             `json:"ttl,omitempty"`
	Certs  bool              `json:"certs,omitempty"`
	CertMask int             `json:"cert_mask,omitempty"` // 1 = ca, 2 = cert, 4 = key
	Bypass bool              `json:"bypass,omitempty"`
	Proc   bool              `json:"with_processing,omitempty"`
	Ident  string            `json:"ident,omitempty"`
	Count  int               `json:"count,omitempty"`
	Up     bool              `json:"running,omitempty"`
	Cond   string            `json:"model_condition,omitempty"` // filled while running: what the model says about the arguments
}

type c23Case struct {
	Ops    []sOp    `json:"ops"`
	Failed int      `json:"failed_at_op"`
	Detail []string `json:"detail,omitempty"`
}

// universe
var (
	c23Pods  = []string{"pa", "pb"}
	c23Nodes = []string{"n1", "n2", "n3"}
	c23Apps  = []string{"app", "svc"}
	c23WL    = map[string][3]string{ // id -> app, entry, default node
		"w1aa": {"app", "web", "n1"}, "w2bb": {"app", "web", "n2"}, "w3cc": {"app", "job", "n1"}, "w4dd": {"svc", "web", "n3"},
		"w5ee": {"app", "web", "n3"}, "w6ff": {"app", "web", "n1"},
	}
)

func c23Workload(id, node string, labels map[string]string) *types.Workload {
	d := c23WL[id]
	return &types.Workload{ID: id, Name: utils.MakeWorkloadName(d[0], d[1], "x"+id), Podname: "pa", Nodename: node, Labels: labels, Image: "img"}
}

func normNode(n *types.Node) string {
	if n == nil {
		return "<nil>"
	}
	l, _ := json.Marshal(n.Labels)
	if len(n.Labels) == 0 {
		l = []byte("{}")
	}
	return fmt.Sprintf("%s@%s ep=%s labels=%s bypass=%v avail=%v", n.Name, n.Podname, n.Endpoint, l, n.Bypass, n.Available)
}

func normStoreNodes(ns []*types.Node) string {
	out := []string{}
	for _, n := range ns {
		out = append(out, normNode(n))
	}
	sort.Strings(out)
	return strings.Join(out, "; ")
}

func normWorkload(w *types.Workload) string {
	if w == nil {
		return "<nil>"
	}
	l, _ := json.Marshal(w.Labels)
	if len(w.Labels) == 0 {
		l = []byte("{}")
	}
	st := "-"
	if w.StatusMeta != nil {
		st = fmt.Sprintf("run=%v", w.StatusMeta.Running)
	}
	return fmt.Sprintf("%s name=%s node=%s labels=%s status=%s", w.ID, w.Name, w.Nodename, l, st)
}

func normWorkloads(ws []*types.Workload, sizeOnly bool) string {
	if sizeOnly {
		return fmt.Sprintf("#%d", len(ws))
	}
	out := []string{}
	for _, w := range ws {
		out = append(out, normWorkload(w))
	}
	sort.Strings(out)
	return strings.Join(out, "; ")
}

// c23Apply performs op on st; it returns whether it succeeded and the normalised result.
func c23Apply(ctx context.Context, st store.Store, op sOp) (bool, string) {
	e := func(err error) (bool, string) { return err == nil, "" }
	switch op.Kind {
	case "add-pod":
		_, err := st.AddPod(ctx, op.Pod, "desc-"+op.Pod)
		return e(err)
	case "remove-pod":
		return e(st.RemovePod(ctx, op.Pod))
	case "get-pod":
		p, err := st.GetPod(ctx, op.Pod)
		if err != nil {
			return false, ""
		}
		return true, p.Name + "/" + p.Desc
	case "get-all-pods":
		ps, err := st.GetAllPods(ctx)
		if err != nil {
			return false, ""
		}
		l := []string{}
		for _, p := range ps {
			l = append(l, p.Name)
		}
		sort.Strings(l)
		return true, strings.Join(l, ",")
	case "add-node":
		o := &types.AddNodeOptions{Nodename: op.Node, Endpoint: sim.Prefix + op.Node, Podname: op.Pod, Labels: op.Labels}
		mask := op.CertMask
		if op.Certs && mask == 0 {
			mask = 7
		}
		// a node may carry any part of the TLS material (only the non-empty pieces are stored)
		if mask&1 != 0 {
			o.Ca = "ca-" + op.Node
		}
		if mask&2 != 0 {
			o.Cert = "cert-" + op.Node
		}
		if mask&4 != 0 {
			o.Key = "key-" + op.Node
		}
		n, err := st.AddNode(ctx, o)
		if err != nil {
			return false, ""
		}
		return true, normNode(n)
	case "remove-node":
		return e(st.RemoveNode(ctx, &types.Node{NodeMeta: types.NodeMeta{Name: op.Node, Podname: op.Pod, Endpoint: sim.Prefix + op.Node}}))
	case "get-node":
		n, err := st.GetNode(ctx, op.Node)
		if err != nil {
			return false, ""
		}
		return true, normNode(n)
	case "get-nodes":
		ns, err := st.GetNodes(ctx, op.Nodes)
		if err != nil {
			return false, ""
		}
		return true, normStoreNodes(ns)
	case "nodes-by-pod":
		ns, err := st.GetNodesByPod(ctx, &types.NodeFilter{Podname: op.Pod, Labels: op.Labels, All: op.All})
		if err != nil {
			return false, ""
		}
		return true, normStoreNodes(ns)
	case "update-node":
		return e(st.UpdateNodes(ctx, &types.Node{NodeMeta: types.NodeMeta{Name: op.Node, Podname: op.Pod, Endpoint: sim.Prefix + op.Node, Labels: op.Labels}, Bypass: op.Bypass}))
	case "load-cert":
		n := &types.Node{NodeMeta: types.NodeMeta{Name: op.Node, Podname: op.Pod}}
		if err := st.LoadNodeCert(ctx, n); err != nil {
			return false, ""
		}
		return true, n.Ca + "|" + n.Cert + "|" + n.Key
	case "set-node-status":
		return e(st.SetNodeStatus(ctx, &types.Node{NodeMeta: types.NodeMeta{Name: op.Node, Podname: op.Pod}}, op.TTL))
	case "get-node-status":
		s, err := st.GetNodeStatus(ctx, op.Node)
		if err != nil {
			return false, ""
		}
		return true, fmt.Sprintf("%s alive=%v", s.Nodename, s.Alive)
	case "add-workload":
		var p *types.Processing
		if op.Proc {
			d := c23WL[op.W]
			p = &types.Processing{Appname: d[0], Entryname: d[1], Nodename: op.Node, Ident: op.Ident}
		}
		return e(st.AddWorkload(ctx, c23Workload(op.W, op.Node, op.Labels), p))
	case "update-workload":
		return e(st.UpdateWorkload(ctx, c23Workload(op.W, op.Node, op.Labels)))
	case "remove-workload":
		return e(st.RemoveWorkload(ctx, c23Workload(op.W, op.Node, nil)))
	case "get-workload":
		w, err := st.GetWorkload(ctx, op.W)
		if err != nil {
			return false, ""
		}
		return true, normWorkload(w)
	case "get-workloads":
		ws, err := st.GetWorkloads(ctx, op.Ws)
		if err != nil {
			return false, ""
		}
		return true, normWorkloads(ws, false)
	case "list-workloads":
		ws, err := st.ListWorkloads(ctx, op.App, op.Entry, op.Node, op.Limit, op.Labels)
		if err != nil {
			return false, ""
		}
		return true, normWorkloads(ws, op.Limit > 0) // with a limit the choice of workloads is the back end's: sizes are compared
	case "list-node-workloads":
		ws, err := st.ListNodeWorkloads(ctx, op.Node, op.Labels)
		if err != nil {
			return false, ""
		}
		return true, normWorkloads(ws, false)
	case "set-workload-status":
		d := c23WL[op.W]
		return e(st.SetWorkloadStatus(ctx, &types.StatusMeta{ID: op.W, Appname: d[0], Entrypoint: d[1], Nodename: op.Node, Running: op.Up, Healthy: op.Up}, op.TTL))
	case "get-workload-status":
		s, err := st.GetWorkloadStatus(ctx, op.W)
		if err != nil {
			return false, ""
		}
		if s == nil {
			return true, "<none>"
		}
		return true, fmt.Sprintf("run=%v healthy=%v", s.Running, s.Healthy)
	case "create-processing":
		return e(st.CreateProcessing(ctx, &types.Processing{Appname: op.App, Entryname: op.Entry, Nodename: op.Node, Ident: op.Ident}, op.Count))
	case "delete-processing":
		return e(st.DeleteProcessing(ctx, &types.Processing{Appname: op.App, Entryname: op.Entry, Nodename: op.Node, Ident: op.Ident}))
	case "deploy-status":
		m, err := st.GetDeployStatus(ctx, op.App, op.Entry)
		if err != nil {
			return false, ""
		}
		b, _ := json.Marshal(m)
		return true, string(b)
	}
	return false, "unknown op"
}

// c23Snapshot reads the observable metadata back through the store API.
func c23Snapshot(ctx context.Context, st store.Store) []string {
	out := []string{}
	add := func(op sOp) {
		ok, res := c23Apply(ctx, st, op)
		out = append(out, fmt.Sprintf("%s %s%s%s%s%s -> %v %s", op.Kind, op.Pod, op.Node, op.W, op.App, op.Entry, ok, res))
	}
	add(sOp{Kind: "get-all-pods"})
	for _, p := range c23Pods {
		add(sOp{Kind: "get-pod", Pod: p})
		add(sOp{Kind: "nodes-by-pod", Pod: p, All: true})
		add(sOp{Kind: "nodes-by-pod", Pod: p})
	}
	for _, n := range c23Nodes {
		add(sOp{Kind: "get-node", Node: n})
		add(sOp{Kind: "get-node-status", Node: n})
		add(sOp{Kind: "list-node-workloads", Node: n})
	}
	ids := []string{}
	for id := range c23WL {
		ids = append(ids, id)
	}
	sort.Strings(ids)
	for _, id := range ids {
		add(sOp{Kind: "get-workload", W: id})
	}
	for _, a := range c23Apps {
		add(sOp{Kind: "list-workloads", App: a})
		for _, en := range []string{"web", "job"} {
			add(sOp{Kind: "deploy-status", App: a, Entry: en})
		}
	}
	return out
}

func (s *stores) rawDump(backend string) map[string]string {
	out := map[string]string{}
	if backend == "redis" {
		for _, k := range s.mr.Keys() {
			v, err := s.mr.Get(k)
			if err != nil {
				v = "<non-string>"
			}
			out[k] = v
		}
		return out
	}
	resp, err := s.cli.Get(context.Background(), "/", clientv3.WithPrefix())
	if err == nil {
		for _, kv := range resp.Kvs {
			out[string(kv.Key)] = string(kv.Value)
		}
	}
	return out
}

func dumpDiff(a, b map[string]string) string {
	d := []string{}
	for k, v := range b {
		if x, ok := a[k]; !ok {
			d = append(d, "+"+k)
		} else if x != v {
			d = append(d, "~"+k)
		}
	}
	for k := range a {
		if _, ok := b[k]; !ok {
			d = append(d, "-"+k)
		}
	}
	sort.Strings(d)
	return strings.Join(d, " ")
}

// c23Model tracks what exists, only to label operations with the condition of their arguments.
type c23Model struct {
	pods  map[string]bool
	nodes map[string]string // node -> pod
	wls   map[string]string // id -> node
	procs map[string]bool
}

func (m *c23Model) cond(op sOp) string {
	has := func(b bool, yes, no string) string {
		if b {
			return yes
		}
		return no
	}
	switch op.Kind {
	case "add-pod", "remove-pod", "get-pod":
		c := has(m.pods[op.Pod], "existing-pod", "missing-pod")
		if op.Kind == "remove-pod" && m.pods[op.Pod] {
			for _, p := range m.nodes {
				if p == op.Pod {
					return "pod-with-nodes"
				}
			}
		}
		return c
	case "add-node":
		_, ex := m.nodes[op.Node]
		return has(ex, "existing-node", "new-node") + "," + has(m.pods[op.Pod], "existing-pod", "missing-pod")
	case "remove-node", "get-node", "update-node", "set-node-status", "get-node-status", "load-cert", "list-node-workloads":
		_, ex := m.nodes[op.Node]
		return has(ex, "existing-node", "missing-node")
	case "get-nodes":
		for _, n := range op.Nodes {
			if _, ex := m.nodes[n]; !ex {
				return "some-missing-node"
			}
		}
		return "existing-nodes"
	case "nodes-by-pod":
		return has(m.pods[op.Pod], "existing-pod", "missing-pod")
	case "add-workload":
		_, ex := m.wls[op.W]
		_, nex := m.nodes[op.Node]
		c := has(ex, "existing-workload", "new-workload") + "," + has(nex, "existing-node", "missing-node")
		if op.Proc {
			d := c23WL[op.W]
			c += "," + has(m.procs[d[0]+"/"+d[1]+"/"+op.Node+"/"+op.Ident], "existing-processing", "missing-processing")
		}
		return c
	case "update-workload", "remove-workload", "get-workload", "get-workload-status":
		_, ex := m.wls[op.W]
		return has(ex, "existing-workload", "missing-workload")
	case "set-workload-status":
		_, ex := m.wls[op.W]
		return has(ex, "existing-workload", "missing-workload") + "," + has(op.TTL == 0, "ttl0", "ttl>0")
	case "get-workloads":
		for _, w := range op.Ws {
			if _, ex := m.wls[w]; !ex {
				return "some-missing-workload"
			}
		}
		return "existing-workloads"
	case "create-processing", "delete-processing":
		return has(m.procs[op.App+"/"+op.Entry+"/"+op.Node+"/"+op.Ident], "existing-processing", "missing-processing")
	}
	return "-"
}

func (m *c23Model) apply(op sOp, ok bool) {
	if !ok {
		return
	}
	switch op.Kind {
	case "add-pod":
		m.pods[op.Pod] = true
	case "remove-pod":
		delete(m.pods, op.Pod)
	case "add-node":
		m.nodes[op.Node] = op.Pod
	case "remove-node":
		delete(m.nodes, op.Node)
	case "add-workload":
		m.wls[op.W] = op.Node
	case "remove-workload":
		delete(m.wls, op.W)
	case "create-processing":
		m.procs[op.App+"/"+op.Entry+"/"+op.Node+"/"+op.Ident] = true
	case "delete-processing":
		delete(m.procs, op.App+"/"+op.Entry+"/"+op.Node+"/"+op.Ident)
	}
}

// c23GenOp draws an operation; arguments whose model condition is one of the recorded divergences (a history ends
// there, the states differ afterwards) are re-drawn most of the time so that histories get long.
func c23GenOp(r *rand.Rand, m *c23Model) sOp {
	for {
		op := c23GenOp1(r, m)
		c := m.cond(op)
		hazard := (op.Kind == "set-node-status" && c == "missing-node") ||
			(op.Kind == "add-workload" && op.Proc && strings.HasPrefix(c, "existing-workload") && strings.HasSuffix(c, "existing-processing"))
		if !hazard || r.Intn(12) == 0 {
			return op
		}
	}
}

func c23GenOp1(r *rand.Rand, m *c23Model) sOp {
	pod := c23Pods[r.Intn(2)]
	node := c23Nodes[r.Intn(3)]
	ids := []string{"w1aa", "w2bb", "w3cc", "w4dd", "w5ee", "w6ff"}
	w := ids[r.Intn(6)]
	labelSets := []map[string]string{nil, nil, {"zone": "a"}, {"zone": "b"}, {"zone": "a", "disk": "ssd"}}
	lab := labelSets[r.Intn(len(labelSets))]
	// the pod a node really is in (operations that need the right pod use it most of the time)
	realPod := func(n string) string {
		if p, ok := m.nodes[n]; ok && r.Intn(8) != 0 {
			return p
		}
		return pod
	}
	wnode := func(id string) string {
		if n, ok := m.wls[id]; ok && r.Intn(8) != 0 {
			return n
		}
		return c23WL[id][2]
	}
	switch k := r.Intn(100); {
	case k < 6:
		return sOp{Kind: "add-pod", Pod: pod}
	case k < 10:
		return sOp{Kind: "remove-pod", Pod: pod}
	case k < 12:
		return sOp{Kind: "get-pod", Pod: pod}
	case k < 14:
		return sOp{Kind: "get-all-pods"}
	case k < 24:
		op := sOp{Kind: "add-node", Node: node, Pod: pod, Labels: lab}
		if r.Intn(2) == 0 {
			op.CertMask = 1 + r.Intn(7)
		}
		return op
	case k < 28:
		return sOp{Kind: "remove-node", Node: node, Pod: realPod(node)}
	case k < 31:
		return sOp{Kind: "get-node", Node: node}
	case k < 33:
		i := r.Intn(3) // two DISTINCT names: calcium sorts and de-duplicates names before it asks the store
		return sOp{Kind: "get-nodes", Nodes: []string{c23Nodes[i], c23Nodes[(i+1+r.Intn(2))%3]}}
	case k < 38:
		return sOp{Kind: "nodes-by-pod", Pod: pod, Labels: lab, All: r.Intn(2) == 0}
	case k < 42:
		return sOp{Kind: "update-node", Node: node, Pod: realPod(node), Labels: lab, Bypass: r.Intn(3) == 0}
	case k < 44:
		return sOp{Kind: "load-cert", Node: node, Pod: realPod(node)}
	case k < 50:
		return sOp{Kind: "set-node-status", Node: node, Pod: realPod(node), TTL: []int64{30, 30, 60, -1}[r.Intn(4)]}
	case k < 52:
		return sOp{Kind: "get-node-status", Node: node}
	case k < 64:
		op := sOp{Kind: "add-workload", W: w, Node: c23WL[w][2], Labels: lab}
		if r.Intn(3) == 0 {
			op.Proc, op.Ident = true, []string{"i1", "i2"}[r.Intn(2)]
		}
		return op
	case k < 67:
		return sOp{Kind: "update-workload", W: w, Node: wnode(w), Labels: lab}
	case k < 72:
		return sOp{Kind: "remove-workload", W: w, Node: wnode(w)}
	case k < 74:
		return sOp{Kind: "get-workload", W: w}
	case k < 76:
		i := r.Intn(6)
		return sOp{Kind: "get-workloads", Ws: []string{ids[i], ids[(i+1+r.Intn(5))%6]}}
	case k < 84:
		op := sOp{Kind: "list-workloads", App: c23Apps[r.Intn(3)%2], Labels: lab, Limit: []int64{0, 0, 1, 2, 3}[r.Intn(5)]}
		if r.Intn(2) == 0 {
			op.Entry = []string{"web", "job"}[r.Intn(2)]
			if r.Intn(2) == 0 {
				op.Node = node
			}
		}
		return op
	case k < 86:
		return sOp{Kind: "list-node-workloads", Node: node, Labels: lab}
	case k < 90:
		return sOp{Kind: "set-workload-status", W: w, Node: wnode(w), TTL: []int64{0, 30, 60}[r.Intn(3)], Up: r.Intn(2) == 0}
	case k < 92:
		return sOp{Kind: "get-workload-status", W: w}
	case k < 96:
		return sOp{Kind: "create-processing", App: c23Apps[r.Intn(2)], Entry: "web", Node: node, Ident: []string{"i1", "i2"}[r.Intn(2)], Count: 1 + r.Intn(3)}
	case k < 98:
		return sOp{Kind: "delete-processing", App: c23Apps[r.Intn(2)], Entry: "web", Node: node, Ident: []string{"i1", "i2"}[r.Intn(2)]}
	default:
		return sOp{Kind: "deploy-status", App: c23Apps[r.Intn(2)], Entry: []string{"web", "job"}[r.Intn(2)]}
	}
}

var c23Creates = map[string]bool{"add-pod": true, "add-node": true, "add-workload": true, "create-processing": true}

func TestC23(t *testing.T) {
	env := vkit.Load("C23")
	rec := vkit.NewRec(env)
	defer rec.Finish()
	s := newStores(t)
	ctx := context.Background()
	c25EngineOnce.Do(func() {
		sim.RegisterEngine(sim.NewBoundary())
		enginefactory.InitEngineCache(ctx, s.cfg, nil)
	})
	for _, n := range c23Nodes {
		sim.NewHost(n, 4, 8<<30)
	}
	r := env.Rand("c23")

	run := func(cs *c23Case, gen func(m *c23Model) sOp, length int) {
		s.wipe()
		rec.Eval()
		m := &c23Model{pods: map[string]bool{}, nodes: map[string]string{}, wls: map[string]string{}, procs: map[string]bool{}}
		rawDivAt, rawDivWhat := -1, ""
		for i := 0; i < length; i++ {
			var op sOp
			if gen != nil {
				op = gen(m)
				cs.Ops = append(cs.Ops, op)
			} else {
				op = cs.Ops[i]
			}
			op.Cond = m.cond(op)
			cs.Ops[i].Cond = op.Cond
			rec.Count("ops/"+op.Kind, 1)
			var before [2]map[string]string
			if c23Creates[op.Kind] {
				before = [2]map[string]string{s.rawDump("etcd"), s.rawDump("redis")}
			}
			okE, resE := c23Apply(ctx, s.etcd, op)
			okR, resR := c23Apply(ctx, s.redis, op)
			fail := func(key, what string, detail ...string) {
				cs.Failed = i
				cs.Ops = cs.Ops[:i+1]
				cs.Detail = detail
				rec.Violation(key, what+fmt.Sprintf(" — op %d %s (%s)", i, op.Kind, op.Cond), cs)
			}
			// a difference in what can be read back is attributed to the EARLIEST step after which the raw contents of
			// the two back ends (same key layout, same JSON) differed: a diverging workload record only becomes
			// readable through the API once its node exists
			blame := func() (string, string) {
				if rawDivAt >= 0 && rawDivAt < i {
					o := cs.Ops[rawDivAt]
					return o.Kind + "/" + o.Cond, fmt.Sprintf(" (the raw contents differ since op %d %s: %s)", rawDivAt, o.Kind, rawDivWhat)
				}
				return op.Kind + "/" + op.Cond, ""
			}
			if c23Creates[op.Kind] {
				for bi, b := range []string{"etcd", "redis"} {
					ok := okE
					if bi == 1 {
						ok = okR
					}
					if !ok {
						rec.Count("failed_creates_dump_compared/"+b, 1)
						if d := dumpDiff(before[bi], s.rawDump(b)); d != "" {
							fail(fmt.Sprintf("failed-create-changed-store/%s/%s/%s", b, op.Kind, op.Cond), fmt.Sprintf("%s refused by the %s store changed its keys: %s", op.Kind, b, d), d)
							return
						}
					}
				}
			}
			if okE != okR {
				o := map[bool]string{true: "ok", false: "refused"}
				fail(fmt.Sprintf("outcome-differs/%s/%s/etcd=%s,redis=%s", op.Kind, op.Cond, o[okE], o[okR]), fmt.Sprintf("etcd %s, redis %s", o[okE], o[okR]))
				return
			}
			if okE && resE != resR {
				who, since := blame()
				fail("result-differs/"+who, fmt.Sprintf("etcd returned [%s], redis returned [%s]%s", resE, resR, since), resE, resR)
				return
			}
			if okE {
				rec.Count("steps_both_ok", 1)
			} else {
				rec.Count("steps_both_refused", 1)
			}
			m.apply(op, okE)
			// observable metadata afterwards
			if rawDivAt < 0 {
				if d := dumpDiff(s.rawDump("etcd"), s.rawDump("redis")); d != "" {
					rawDivAt, rawDivWhat = i, d
					rec.Count("raw_contents_diverged", 1)
				}
			}
			se, sr := c23Snapshot(ctx, s.etcd), c23Snapshot(ctx, s.redis)
			for k := range se {
				if se[k] != sr[k] {
					who, since := blame()
					fail("metadata-differs-after/"+who, fmt.Sprintf("after the step the stores answer differently: etcd {%s} redis {%s}%s", se[k], sr[k], since), se[k], sr[k])
					return
				}
			}
			rec.Count("snapshots_compared", 1)
		}
		rec.Count("histories_completed", 1)
		rec.Nontrivial(fmt.Sprintf("%+v", cs.Ops))
		if len(cs.Ops) > 0 {
			rec.Sample(map[string]any{"length": len(cs.Ops), "last_op": cs.Ops[len(cs.Ops)-1]})
		}
	}

	if env.Replay != "" {
		var cs c23Case
		if err := vkit.ReadReplay(env.Replay, &cs); err != nil {
			t.Fatal(err)
		}
		run(&cs, nil, len(cs.Ops))
		return
	}
	n := env.Pick(240, 3600) / env.NBatch
	for i := 0; i < n; i++ {
		cs := &c23Case{}
		run(cs, func(m *c23Model) sOp { return c23GenOp(r, m) }, 10+r.Intn(41))
	}
}
