package checks

// C33 at the cluster API (last batch of a run): a keep-bind re-allocation with no CPU change of a bound workload
// that is requested while ANOTHER re-allocation of the same workload (one that does change its cores) is still
// waiting for the pod lock. Both queue behind a lock the harness holds; when it is released the core-changing one
// runs first. The keep-bind one must leave the workload on the cores it has THEN - not on the ones it had when the
// request came in.

import (
	"context"
	"encoding/json"
	"fmt"
	"sort"
	"strings"
	"testing"
	"time"

	"github.com/projecteru2/core/cluster"
	cpumemtypes "github.com/projecteru2/core/resource/plugins/cpumem/types"
	resourcetypes "github.com/projecteru2/core/resource/types"

	"verifharness/sim"
	"verifharness/vkit"
)

type reallocClusterCase struct {
	Cores     int     `json:"node_cores"`
	CPU       float64 `json:"workload_cpu"`
	GrowBy    float64 `json:"first_reallocation_adds_cpu"`
	MemDelta  int64   `json:"keep_bind_reallocation_memory_delta"`
	Before    string  `json:"cores_before,omitempty"`
	AfterGrow string  `json:"cores_the_growing_reallocation_alone_gives,omitempty"`
	Final     string  `json:"cores_at_the_end,omitempty"`
}

func c33Cluster(t *testing.T, env *vkit.Env, rec *vkit.Rec, replay *reallocClusterCase) {
	w := newWorld(t, env, rec, false)
	ctx := context.Background()
	r := env.Rand("c33-cluster")

	coresOf := func(id string) (string, float64) {
		snap := w.cl.Snapshot(ctx)
		ws, ok := snap.Workloads[id]
		if !ok {
			return "?", 0
		}
		var res resourcetypes.Resources
		_ = json.Unmarshal([]byte(ws.Res), &res)
		wr := &cpumemtypes.WorkloadResource{}
		if err := wr.Parse(res["cpumem"]); err != nil {
			return "?", 0
		}
		l := []string{}
		for c := range wr.CPUMap {
			l = append(l, c)
		}
		sort.Strings(l)
		return strings.Join(l, ","), wr.CPURequest
	}

	run := func(cs *reallocClusterCase) {
		topo := &sim.Topology{Pods: []string{"pa"}, Nodes: []sim.NodeSpec{{Name: "n1", Pod: "pa", Cores: cs.Cores, Memory: 8 << 30, Up: true}}}
		setup := []sim.Op{{Kind: "create", App: "app", Entry: "web", Pod: "pa", Strategy: "AUTO", Count: 1, Includes: []string{"n1"}, Res: sim.Res{Bind: true, CPU: cs.CPU, Memory: 1 << 26}}}
		grow := sim.Res{Bind: true, CPU: cs.GrowBy}
		keep := sim.Res{Keep: true, Memory: cs.MemDelta}
		// reference: what the growing re-allocation alone does to the cores
		if err := w.rebuild(topo, setup); err != nil {
			rec.Inconclusive("rebuild failed: %v", err)
			return
		}
		ids := w.model.Sorted()
		if len(ids) != 1 {
			rec.Count("cluster/setup_did_not_create_one_workload", 1)
			return
		}
		cs.Before, _ = coresOf(ids[0])
		if res := w.exec(sim.Op{Kind: "realloc", IDs: ids, Res: grow}, nil); res.AnyFailed() {
			rec.Count("cluster/growing_reallocation_refused", 1)
			return
		}
		cs.AfterGrow, _ = coresOf(ids[0])
		// the real run: same state, both re-allocations queued behind the pod lock
		if err := w.rebuild(topo, setup); err != nil {
			rec.Inconclusive("rebuild failed: %v", err)
			return
		}
		rec.Eval()
		ids = w.model.Sorted()
		hold, err := w.cl.Raw.CreateLock(fmt.Sprintf(cluster.PodLock, "pa"), 30*time.Second)
		if err != nil {
			rec.Inconclusive("CreateLock: %v", err)
			return
		}
		if _, err := hold.Lock(ctx); err != nil {
			rec.Inconclusive("Lock: %v", err)
			return
		}
		waitQueued := func(n int) bool {
			deadline := time.Now().Add(10 * time.Second)
			for time.Now().Before(deadline) {
				if w.cl.Locks.WaitingCount(nil) >= n {
					return true
				}
				time.Sleep(2 * time.Millisecond)
			}
			return false
		}
		w.b.Arm(nil)
		done := make(chan *sim.Result, 2)
		go func() { done <- w.cl.Exec(sim.NewModel(), sim.Op{Kind: "realloc", IDs: ids, Res: grow}, "grow") }()
		okA := waitQueued(1)
		time.Sleep(30 * time.Millisecond) // its lock key is in the queue (etcd mutex: first come, first served)
		go func() { done <- w.cl.Exec(sim.NewModel(), sim.Op{Kind: "realloc", IDs: ids, Res: keep}, "keep") }()
		okB := waitQueued(2)
		time.Sleep(30 * time.Millisecond)
		_ = hold.Unlock(ctx)
		r1, r2 := <-done, <-done
		w.cl.WaitQuiet(20 * time.Second)
		w.b.Disarm()
		if !okA || !okB {
			rec.Count("cluster/reallocations_did_not_queue", 1)
			return
		}
		if r1.AnyFailed() || r2.AnyFailed() {
			rec.Count("cluster/a_reallocation_failed", 1)
			return
		}
		cs.Final, _ = coresOf(ids[0])
		rec.Count("cluster/keep_bind_reallocations_behind_a_growing_one", 1)
		snap := w.cl.Snapshot(ctx)
		if probs := problemsOf(w.cl.CheckInvariants(ctx, snap), "usage-mismatch"); len(probs) > 0 {
			rec.Violation("cluster/keep-bind-behind-growing-realloc/usage-differs-from-recorded-workloads", probs[0].What, cs)
			return
		}
		if cs.Final != cs.AfterGrow {
			rec.Violation("cluster/keep-bind-behind-growing-realloc/core-moved",
				fmt.Sprintf("the workload was on cores {%s}; a re-allocation adding %.2f cpu put it on {%s}; the keep-cpu-bind re-allocation (cpu delta 0, memory %+d) that ran after it left it on {%s}", cs.Before, cs.GrowBy, cs.AfterGrow, cs.MemDelta, cs.Final), cs)
			return
		}
		rec.Nontrivial(fmt.Sprintf("cluster %+v", *cs))
	}
	if replay != nil {
		run(replay)
		return
	}
	n := env.Pick(12, 120)
	for i := 0; i < n; i++ {
		run(&reallocClusterCase{Cores: 4 + r.Intn(5), CPU: []float64{1, 2, 1.5, 0.5}[r.Intn(4)], GrowBy: []float64{1, 2, 0.5}[r.Intn(3)], MemDelta: int64(r.Intn(3)-1) << 20})
	}
}
