package checks

// C14 — a crash during deployment is repaired by recovery. Crash = freeze of one Calcium instance at its
// k-th boundary call (every goroutine of the dead instance parks at its next boundary call, so nothing it
// would still do becomes visible); then a fresh instance on the same store and WAL file runs DisasterRecover.

import (
	"context"
	"fmt"
	"path/filepath"
	"sort"
	"strings"
	"testing"
	"time"

	"verifharness/sim"
	"verifharness/vkit"
)

type crashCase struct {
	Topology *sim.Topology `json:"topology"`
	Op       sim.Op        `json:"op"`
	CrashAt  int           `json:"crash_at"`
	Events   []string      `json:"events_until_crash,omitempty"`
	After    []string      `json:"events_of_recovery,omitempty"`
	PluginLayer bool       `json:"plugin_layer,omitempty"` // decorated plugins + second plugin: crash points between two plugins' writes
}

func waitSettled(b *sim.Boundary, window, patience time.Duration) bool {
	deadline := time.Now().Add(patience)
	last := b.Seq()
	since := time.Now()
	for time.Now().Before(deadline) {
		if s := b.Seq(); s != last || b.Inflight() != 0 {
			last, since = s, time.Now()
		} else if time.Since(since) >= window {
			return true
		}
		t0 := time.Now()
		time.Sleep(time.Millisecond)
		if time.Since(t0) > 5*time.Millisecond { // not being scheduled promptly: the window does not count (see sim.WaitQuiet)
			since = time.Now()
		}
	}
	return false
}

func TestC14(t *testing.T) {
	env := vkit.Load("C14")
	rec := vkit.NewRec(env)
	defer rec.Finish()
	b := sim.NewBoundary()
	ctx := context.Background()
	r := env.Rand("c14")
	tmp := t.TempDir()
	run := 0
	var base *sim.Cluster // first instance: owns the lock table, used for wiping and raw access

	// oneRun executes the deployment with a crash at step k (k = 0: no crash, count the steps).
	// retire makes an instance of a finished run dead for good: frozen, and every lock it still holds released (what
	// lease expiry does). Without it a lock held by a retired instance's asynchronous goroutine (parked at its next
	// boundary call) stays in the shared lock table and every later WaitQuiet runs into its full patience.
	var retired []string
	retire := func() {
		for _, inst := range retired {
			b.Freeze(inst)
			for _, l := range base.Locks.HeldByInst(inst) {
				l.ForceRelease()
				rec.Count("locks_released_for_retired_instances", 1)
			}
		}
		retired = nil
	}
	oneRun := func(cc *crashCase) (steps int, fired bool) {
		run++
		if base != nil {
			retire()
		}
		walFile := filepath.Join(tmp, fmt.Sprintf("run-%d.wal", run))
		instA, instB := fmt.Sprintf("A%d", run), fmt.Sprintf("B%d", run)
		a := sim.Boot(t, b, sim.BootOpts{Inst: instA, WALFile: walFile, PluginLayer: cc.PluginLayer}, base)
		if base == nil {
			base = a
		}
		retired = append(retired, instA, instB)
		a.WipeEtcd()
		sim.ResetAllHosts()
		b.ResetLog()
		a.Locks.Reset()
		if err := a.Install(cc.Topology); err != nil {
			rec.Inconclusive("install failed: %v", err)
			return 0, false
		}
		waitSettled(b, 10*time.Millisecond, 5*time.Second)
		seq0 := b.Seq()
		var plan *sim.FaultPlan
		if cc.CrashAt > 0 {
			plan = &sim.FaultPlan{Kind: "crash", Index: cc.CrashAt, Inst: instA}
		}
		b.Arm(plan)
		done := make(chan *sim.Result, 1)
		go func() { done <- a.Exec(sim.NewModel(), cc.Op, "deploy") }()
		var res *sim.Result
		deadline := time.After(60 * time.Second)
	wait:
		for {
			select {
			case res = <-done:
				break wait
			case <-deadline:
				rec.Inconclusive("deployment neither finished nor crashed within 60 s (crash at %d)", cc.CrashAt)
				b.Freeze(instA)
				return 0, false
			default:
				if plan.Fired() {
					break wait
				}
				time.Sleep(time.Millisecond)
			}
		}
		waitSettled(b, 20*time.Millisecond, 10*time.Second)
		steps = b.Disarm()
		rec.Eval()
		if res != nil { // the deployment completed: k is beyond its last step
			a.WaitQuiet(quietPatience)
			b.Freeze(instA) // retire the instance anyway
			_ = a.WAL.Real.Close()
			return steps, false
		}
		// ---- the instance is dead --------------------------------------------------------------
		crashEvents := b.EventsSince(seq0)
		cc.Events = eventsBrief(crashEvents)
		rec.Count("crashes", 1)
		prefix := []string{}
		for _, e := range crashEvents {
			if e.Ret && e.Err == "" {
				prefix = append(prefix, e.Layer+"."+e.Op)
			}
		}
		sort.Strings(prefix)
		rec.SetAdd("distinct_crash_prefixes", fmt.Sprintf("%x", vkit.Hash64(strings.Join(prefix, ","))))
		if len(crashEvents) > 0 {
			last := crashEvents[len(crashEvents)-1]
			for i := len(crashEvents) - 1; i >= 0; i-- {
				if crashEvents[i].Injected {
					last = crashEvents[i]
					break
				}
			}
			rec.SetAdd("crash_sites", last.Layer+"."+last.Op)
		}
		_ = a.WAL.Real.Close() // what the OS does with the dead process's file
		for _, l := range a.Locks.HeldByInst(instA) {
			l.ForceRelease() // what lease expiry does after LockTimeout
		}
		seq1 := b.Seq()
		bcl := sim.Boot(t, b, sim.BootOpts{Inst: instB, WALFile: walFile, PluginLayer: cc.PluginLayer}, base)
		bcl.C.DisasterRecover(bcl.Ctx("recover"))
		if !bcl.WaitQuiet(15 * time.Second) {
			rec.Count("recoveries_not_quiet_within_15s", 1)
		}
		waitSettled(b, 30*time.Millisecond, 10*time.Second)
		cc.After = eventsBrief(b.EventsSince(seq1))
		rec.Count("recoveries", 1)

		snap := bcl.Snapshot(ctx)
		probs := bcl.CheckInvariants(ctx, snap)
		viol := func(effect, what string) {
			site := "?"
			for i := len(crashEvents) - 1; i >= 0; i-- {
				if crashEvents[i].Injected {
					site = crashEvents[i].Layer + "." + crashEvents[i].Op
					break
				}
			}
			rec.Violation(fmt.Sprintf("crash@%s/%s", site, effect), fmt.Sprintf("%s — crash at step %d of %s", what, cc.CrashAt, cc.Op.String()), cc)
		}
		nontrivial := true
		for _, p := range probs {
			switch p.Kind {
			case "usage-mismatch", "over-capacity":
				viol("usage-differs-from-recorded-workloads", "after recovery: "+p.What)
				return steps, true
			case "record-without-container":
				viol("record-without-container", "after recovery: "+p.What)
				return steps, true
			case "container-without-record":
				// excepted: the container's create returned but its create-workload WAL entry was not written before the crash
				if containerLoggedBeforeCrash(crashEvents, p.What, snap) {
					viol("container-without-record", "after recovery: "+p.What+" (its create-workload entry had been logged before the crash)")
					return steps, true
				}
				rec.Count("excepted_unlogged_containers", 1)
			case "index-mismatch", "dangling-workload", "node-without-resource", "resource-without-node":
				viol(p.Kind, "after recovery: "+p.What)
				return steps, true
			}
		}
		if len(snap.Processing) > 0 {
			viol("processing-marker-left", fmt.Sprintf("after recovery in-progress markers remain: %v", snap.Processing))
			return steps, true
		}
		// every recorded instance is started
		for id, wl := range snap.Workloads {
			if c, ok := sim.GetHost(sim.Prefix + wl.Node).Get(id); ok && c.State != "running" {
				viol("recorded-but-not-started", fmt.Sprintf("after recovery workload %.8s is recorded but its container is %s", id, c.State))
				return steps, true
			}
		}
		if nontrivial {
			rec.Nontrivial(fmt.Sprintf("%v/%s/%d", cc.Topology, cc.Op.String(), cc.CrashAt))
			if cc.CrashAt%5 == 0 {
				rec.Sample(map[string]any{"op": cc.Op.String(), "crash_at": cc.CrashAt, "last_events": tail(cc.Events, 4), "recovery_events": len(cc.After)})
			}
		}
		return steps, true
	}

	if env.Replay != "" {
		var cc crashCase
		if err := vkit.ReadReplay(env.Replay, &cc); err != nil {
			t.Fatal(err)
		}
		for i := 0; i < 4; i++ {
			oneRun(&cc)
		}
		return
	}
	scen := env.Pick(8, 120) / env.NBatch
	if scen < 1 {
		scen = 1
	}
	for s := 0; s < scen; s++ {
		topo := sim.GenTopology(r, true)
		if len(topo.Nodes) > 3 {
			topo.Nodes = topo.Nodes[:3]
		}
		for i := range topo.Nodes {
			topo.Nodes[i].Pod = "pa"
		}
		topo.Pods = []string{"pa"}
		op := sim.GenCreate(r, topo)
		op.Pod, op.Includes, op.Excludes, op.Labels, op.Limit = "pa", nil, nil, nil, 0
		op.Strategy = []string{"AUTO", "GLOBAL", "FILL", "EACH"}[r.Intn(4)]
		op.Count = 1 + r.Intn(4)
		if op.Strategy == "EACH" || op.Strategy == "FILL" {
			op.Count = 1 + r.Intn(2)
		}
		if op.Res.Memory > 1<<28 {
			op.Res.Memory = 1 << 26
		}
		pl := env.Batch%2 == 1 // odd batches: plugin layer (the whole process, the first instance owns the second plugin's records)
		if pl {
			op.Res.Slots = int64(1 + r.Intn(3))
			rec.Count("deployments_with_plugin_layer", 1)
		}
		n, _ := oneRun(&crashCase{Topology: topo, Op: op, CrashAt: 0, PluginLayer: pl})
		rec.Count("deployments", 1)
		for k := 1; k <= n+3; k++ {
			if _, fired := oneRun(&crashCase{Topology: topo, Op: op, CrashAt: k, PluginLayer: pl}); !fired {
				break
			}
		}
	}
}

func tail(l []string, n int) []string {
	if len(l) > n {
		return l[len(l)-n:]
	}
	return l
}

// containerLoggedBeforeCrash decides whether the create-workload WAL entry of the container named in a
// container-without-record problem had been written before the crash: in the dead instance's event log the
// goroutine that performed the VirtualizationCreate must have a later successful wal.Log(create-workload).
func containerLoggedBeforeCrash(evs []sim.Event, what string, _ *sim.Snapshot) bool {
	// what: "container <id8> exists on <host> without a workload record"
	f := strings.Fields(what)
	if len(f) < 5 {
		return true
	}
	id8, host := f[1], f[4]
	h := sim.GetHost(sim.Prefix + host)
	if h == nil {
		return true
	}
	var name string
	for id, c := range h.Containers() {
		if strings.HasPrefix(id, id8) {
			name = c.Name
		}
	}
	if name == "" {
		return true
	}
	okRet := map[int64]bool{}
	for _, e := range evs {
		if e.Ret && e.Err == "" {
			okRet[e.CallID] = true
		}
	}
	for i, e := range evs {
		if e.Ret || e.Layer != "engine" || e.Op != "VirtualizationCreate" || e.Arg != host+":"+name {
			continue
		}
		if !okRet[e.CallID] {
			return false // the create itself had not returned: not even visible to core
		}
		for _, l := range evs[i+1:] {
			if !l.Ret && l.G == e.G && l.Layer == "wal" && l.Op == "Log" && l.Arg == "create-workload" {
				return okRet[l.CallID]
			}
		}
		return false
	}
	return true
}
