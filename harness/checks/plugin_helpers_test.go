package checks

// Shared helpers for the cpumem plugin-level monitors (C04–C08, C15, C32, C33): node-state and request
// generators (§4.5 of DESIGN.md), state installation through the real plugin on embedded etcd, guarded
// calls (panic capture + watchdog) and small arithmetic helpers.

import (
	"context"
	"fmt"
	"math"
	"math/rand"
	"os"
	"runtime"
	"sort"
	"strconv"
	"strings"
	"sync"
	"testing"
	"time"

	"github.com/mitchellh/mapstructure"

	"github.com/projecteru2/core/resource/plugins/cpumem"
	cpumemtypes "github.com/projecteru2/core/resource/plugins/cpumem/types"
	plugintypes "github.com/projecteru2/core/resource/plugins/types"
	coretypes "github.com/projecteru2/core/types"

	"verifharness/vkit"
)

type nodeState struct {
	ShareBase  int               `json:"share_base"`
	MaxShare   int               `json:"max_share"`
	CapCPU     map[string]int    `json:"cap_cpu"`
	UseCPU     map[string]int    `json:"use_cpu"`
	UseCPUReq  float64           `json:"use_cpu_total"`
	CapMem     int64             `json:"cap_mem"`
	UseMem     int64             `json:"use_mem"`
	NUMA       map[string]string `json:"numa,omitempty"`
	CapNUMAMem map[string]int64  `json:"cap_numa_mem,omitempty"`
	UseNUMAMem map[string]int64  `json:"use_numa_mem,omitempty"`
}

type wlRequest struct {
	Bind     bool    `json:"bind"`
	KeepBind bool    `json:"keep_bind,omitempty"`
	CPUReq   float64 `json:"cpu_request"`
	CPULim   float64 `json:"cpu_limit"`
	MemReq   int64   `json:"mem_request"`
	MemLim   int64   `json:"mem_limit"`
}

func (q wlRequest) raw() plugintypes.WorkloadResourceRequest {
	r := plugintypes.WorkloadResourceRequest{
		"cpu-request": q.CPUReq, "cpu-limit": q.CPULim, "memory-request": q.MemReq, "memory-limit": q.MemLim,
	}
	if q.Bind {
		r["cpu-bind"] = true
	}
	if q.KeepBind {
		r["keep-cpu-bind"] = true
	}
	return r
}

// effective mirrors WorkloadResourceRequest.Validate's normalisation (what the plugin will plan for).
func (q wlRequest) effective() wlRequest {
	w := &cpumemtypes.WorkloadResourceRequest{CPUBind: q.Bind, KeepCPUBind: q.KeepBind, CPURequest: q.CPUReq, CPULimit: q.CPULim, MemRequest: q.MemReq, MemLimit: q.MemLim}
	_ = w.Validate()
	return wlRequest{Bind: w.CPUBind, KeepBind: w.KeepCPUBind, CPUReq: w.CPURequest, CPULim: w.CPULimit, MemReq: w.MemRequest, MemLim: w.MemLimit}
}

func (s *nodeState) freeCPU() map[string]int {
	m := map[string]int{}
	for c, v := range s.CapCPU {
		m[c] = v - s.UseCPU[c]
	}
	return m
}

func (s *nodeState) norm() string {
	var sb strings.Builder
	fmt.Fprintf(&sb, "b%d/m%d/mem%d-%d", s.ShareBase, s.MaxShare, s.CapMem, s.UseMem)
	for _, c := range sortedKeys(s.CapCPU) {
		fmt.Fprintf(&sb, "|%s:%d-%d@%s", c, s.CapCPU[c], s.UseCPU[c], s.NUMA[c])
	}
	for _, n := range sortedKeys64(s.CapNUMAMem) {
		fmt.Fprintf(&sb, "|N%s:%d-%d", n, s.CapNUMAMem[n], s.UseNUMAMem[n])
	}
	return sb.String()
}

func (q wlRequest) norm() string {
	return fmt.Sprintf("bind%v/keep%v/cpu%g-%g/mem%d-%d", q.Bind, q.KeepBind, q.CPUReq, q.CPULim, q.MemReq, q.MemLim)
}

func sortedKeys(m map[string]int) []string {
	k := make([]string, 0, len(m))
	for s := range m {
		k = append(k, s)
	}
	sort.Slice(k, func(i, j int) bool {
		a, e1 := strconv.Atoi(k[i])
		b, e2 := strconv.Atoi(k[j])
		if e1 == nil && e2 == nil {
			return a < b
		}
		return k[i] < k[j]
	})
	return k
}

func sortedKeys64(m map[string]int64) []string {
	k := make([]string, 0, len(m))
	for s := range m {
		k = append(k, s)
	}
	sort.Strings(k)
	return k
}

func (s *nodeState) info() *cpumemtypes.NodeResourceInfo {
	capR := &cpumemtypes.NodeResource{CPU: float64(len(s.CapCPU)), CPUMap: cpumemtypes.CPUMap{}, Memory: s.CapMem, NUMAMemory: cpumemtypes.NUMAMemory{}, NUMA: cpumemtypes.NUMA{}}
	useR := &cpumemtypes.NodeResource{CPU: s.UseCPUReq, CPUMap: cpumemtypes.CPUMap{}, Memory: s.UseMem, NUMAMemory: cpumemtypes.NUMAMemory{}, NUMA: cpumemtypes.NUMA{}}
	for c, v := range s.CapCPU {
		capR.CPUMap[c] = v
		useR.CPUMap[c] = s.UseCPU[c]
	}
	for c, n := range s.NUMA {
		capR.NUMA[c] = n
		useR.NUMA[c] = n
	}
	for n, v := range s.CapNUMAMem {
		capR.NUMAMemory[n] = v
		useR.NUMAMemory[n] = s.UseNUMAMem[n]
	}
	return &cpumemtypes.NodeResourceInfo{Capacity: capR, Usage: useR}
}

func toRaw(v any) map[string]any {
	out := map[string]any{}
	_ = mapstructure.Decode(v, &out)
	return out
}

// genOpts steers the node-state generator.
type genOpts struct {
	maxCores     int
	wholeOnly    bool // only whole-core shares (capacity = base on every core), usage multiples allowed to be fragments
	oddShares    bool // allow capacities that are not a multiple of the share base
	numa         bool
	bases        []int
	fragmentBias bool
}

func genNodeState(r *rand.Rand, o genOpts) *nodeState {
	bases := o.bases
	if len(bases) == 0 {
		bases = []int{100, 100, 100, 100, 10, 10, 1000}
	}
	base := bases[r.Intn(len(bases))]
	n := 1 + r.Intn(o.maxCores)
	s := &nodeState{ShareBase: base, CapCPU: map[string]int{}, UseCPU: map[string]int{}}
	oddNode := o.oddShares && r.Intn(4) == 0
	for i := 0; i < n; i++ {
		c := strconv.Itoa(i)
		capv := base
		if !o.wholeOnly {
			switch k := r.Intn(10); {
			case k == 0:
				capv = 2 * base
			case k == 1 && oddNode:
				capv = base / 2
			case k == 2 && oddNode:
				capv = base * 3 / 2
			case k == 3 && oddNode:
				capv = 1 + r.Intn(2*base)
			}
		} else if oddNode {
			capv = base // whole-core shares only
		}
		if capv < 1 {
			capv = 1
		}
		s.CapCPU[c] = capv
		switch k := r.Intn(10); {
		case k < 4:
			s.UseCPU[c] = 0
		case k < 6:
			s.UseCPU[c] = capv
		case k < 8 && capv >= base:
			s.UseCPU[c] = base * r.Intn(capv/base+1)
		default:
			s.UseCPU[c] = r.Intn(capv + 1)
		}
	}
	tot := 0
	for _, v := range s.UseCPU {
		tot += v
	}
	s.UseCPUReq = math.Round(float64(tot)/float64(base)*100) / 100
	if r.Intn(3) == 0 { // workloads without cpu binding add their cpu request to usage.cpu but pin no pieces
		s.UseCPUReq = math.Round((s.UseCPUReq+float64(r.Intn(2*n*100+1))/100)*100) / 100
	}
	// memory in units so that small integer ratios are common
	unit := int64([]int{1, 50, 1 << 20}[r.Intn(3)])
	s.CapMem = unit * int64(4+r.Intn(60))
	s.UseMem = unit * int64(r.Intn(int(s.CapMem/unit)+1))
	if o.numa && n >= 2 && r.Intn(3) == 0 {
		s.NUMA = map[string]string{}
		split := 1 + r.Intn(n-1)
		for i := 0; i < n; i++ {
			if i < split {
				s.NUMA[strconv.Itoa(i)] = "0"
			} else {
				s.NUMA[strconv.Itoa(i)] = "1"
			}
		}
		units := s.CapMem / unit
		a := int64(r.Intn(int(units) + 1))
		b := int64(r.Intn(int(units-a) + 1))
		if r.Intn(3) == 0 { // memory-less NUMA topology is common in the repo's tests
			a, b = 0, 0
		}
		s.CapNUMAMem = map[string]int64{"0": a * unit, "1": b * unit}
		// reachable usage: sum of NUMA usage <= memory usage, each <= its capacity
		uu := s.UseMem / unit
		ua := int64(r.Intn(int(minI64(a, uu)) + 1))
		ub := int64(r.Intn(int(minI64(b, uu-ua)) + 1))
		s.UseNUMAMem = map[string]int64{"0": ua * unit, "1": ub * unit}
	}
	ms := []int{-1, -1, -1, 1, 2, 3, n}
	s.MaxShare = ms[r.Intn(len(ms))]
	return s
}

func minI64(a, b int64) int64 {
	if a < b {
		return a
	}
	return b
}

// genRequest produces a workload request for node state s.
func genRequest(r *rand.Rand, s *nodeState, bind bool, subPiece bool) wlRequest {
	q := wlRequest{Bind: bind}
	base := s.ShareBase
	switch k := r.Intn(12); {
	case k < 5:
		q.CPUReq = float64(1+r.Intn(base)) / float64(base) // up to one core
	case k < 8:
		q.CPUReq = float64(1+r.Intn(3*base)) / float64(base)
	case k < 10:
		q.CPUReq = float64(1 + r.Intn(3))
	case k == 10 && subPiece:
		q.CPUReq = []float64{0.001, 0.004, 0.0049, 0.00999999, 0.0001}[r.Intn(5)] * 100 / float64(base)
	default:
		q.CPUReq = float64(r.Intn(len(s.CapCPU)+1)) + float64(r.Intn(base))/float64(base)
		if q.CPUReq == 0 {
			q.CPUReq = 1
		}
	}
	if !bind && r.Intn(4) == 0 {
		q.CPUReq = 0
	}
	switch r.Intn(4) {
	case 0:
		q.CPULim = 0
	case 1:
		q.CPULim = q.CPUReq
	case 2:
		q.CPULim = q.CPUReq + float64(r.Intn(base))/float64(base)
	default:
		q.CPULim = q.CPUReq
	}
	free := s.CapMem - s.UseMem
	switch r.Intn(6) {
	case 0:
		q.MemReq = 0
	case 1:
		q.MemReq = 1 + free/int64(8+r.Intn(8))
	case 2:
		q.MemReq = 1 + free/int64(1+r.Intn(4))
	case 3:
		q.MemReq = free
	case 4:
		q.MemReq = free + 1 + int64(r.Intn(10))
	default:
		q.MemReq = 1 + int64(r.Intn(int(free/2+1)))
	}
	if q.MemReq < 0 {
		q.MemReq = 0
	}
	switch r.Intn(3) {
	case 0:
		q.MemLim = 0
	case 1:
		q.MemLim = q.MemReq
	default:
		q.MemLim = q.MemReq + int64(r.Intn(100))
	}
	return q
}

// ---- plugin access ---------------------------------------------------------------------------

type plugEnv struct {
	t       *testing.T
	mu      sync.Mutex
	plugins map[string]*cpumem.Plugin
}

func newPlugEnv(t *testing.T) *plugEnv { return &plugEnv{t: t, plugins: map[string]*cpumem.Plugin{}} }

func baseConfig(shareBase, maxShare int) coretypes.Config {
	return coretypes.Config{
		Etcd:           coretypes.EtcdConfig{Prefix: "/verif", LockPrefix: "__lock__/verif"},
		Scheduler:      coretypes.SchedulerConfig{MaxShare: maxShare, ShareBase: shareBase, MaxDeployCount: 10000},
		GlobalTimeout:  5 * time.Minute,
		LockTimeout:    30 * time.Second,
		MaxConcurrency: 100000,
	}
}

// plugin returns a real cpumem plugin configured with (shareBase, maxShare) on the process-wide
// embedded etcd (one cluster per process, created from this goroutine).
func (p *plugEnv) plugin(shareBase, maxShare int) *cpumem.Plugin {
	p.mu.Lock()
	defer p.mu.Unlock()
	k := fmt.Sprintf("%d/%d", shareBase, maxShare)
	if pl, ok := p.plugins[k]; ok {
		return pl
	}
	pl, err := cpumem.NewPlugin(context.Background(), baseConfig(shareBase, maxShare), p.t)
	if err != nil {
		p.t.Fatalf("cpumem.NewPlugin: %v", err)
	}
	p.plugins[k] = pl
	return pl
}

func (p *plugEnv) install(pl *cpumem.Plugin, node string, s *nodeState) error {
	info := s.info()
	_, err := pl.SetNodeResourceInfo(context.Background(), node, toRaw(info.Capacity), toRaw(info.Usage))
	return err
}

func readInfo(pl *cpumem.Plugin, node string) (*cpumemtypes.NodeResourceInfo, error) {
	resp, err := pl.GetNodeResourceInfo(context.Background(), node, nil)
	if err != nil {
		return nil, err
	}
	capR, useR := &cpumemtypes.NodeResource{}, &cpumemtypes.NodeResource{}
	if err := capR.Parse(resp.Capacity); err != nil {
		return nil, err
	}
	if err := useR.Parse(resp.Usage); err != nil {
		return nil, err
	}
	return &cpumemtypes.NodeResourceInfo{Capacity: capR, Usage: useR}, nil
}

func parseWorkloads(raws []plugintypes.WorkloadResource) ([]*cpumemtypes.WorkloadResource, error) {
	out := make([]*cpumemtypes.WorkloadResource, 0, len(raws))
	for _, raw := range raws {
		w := &cpumemtypes.WorkloadResource{}
		if err := w.Parse(raw); err != nil {
			return nil, err
		}
		out = append(out, w)
	}
	return out, nil
}

// ---- guarded calls ---------------------------------------------------------------------------

const guardPatience = 20 * time.Second

type guardResult struct {
	panicked bool
	panicVal string
	stack    string
	hung     bool
	runaway  bool
}

// guard runs f with panic capture and a watchdog. A call that does not return within `patience`
// or that drives the heap beyond 3 GiB is reported as hung/runaway; the goroutine cannot be killed,
// so the caller must end the process after recording the witness.
func guard(patience time.Duration, f func()) guardResult {
	done := make(chan guardResult, 1)
	go func() {
		var g guardResult
		defer func() {
			if x := recover(); x != nil {
				g.panicked = true
				g.panicVal = fmt.Sprint(x)
				buf := make([]byte, 8192)
				g.stack = string(buf[:runtime.Stack(buf, false)])
			}
			done <- g
		}()
		f()
	}()
	deadline := time.After(patience)
	tick := time.NewTicker(50 * time.Millisecond)
	defer tick.Stop()
	var ms runtime.MemStats
	for {
		select {
		case g := <-done:
			return g
		case <-deadline:
			return guardResult{hung: true}
		case <-tick.C:
			runtime.ReadMemStats(&ms)
			if ms.HeapAlloc > 3<<30 {
				return guardResult{hung: true, runaway: true}
			}
		}
	}
}

// dieAfterHang ends the process after a hang has been recorded: the runaway goroutine would otherwise
// eat all memory. The part file has been finished, so the driver sees a complete batch.
func dieAfterHang(rec *vkit.Rec) {
	rec.Note("batch ended early: a call did not return (see violation); remaining cases of this batch were not run")
	rec.Finish()
	os.Exit(0)
}

func approxEq(a, b float64) bool { return math.Abs(a-b) < 1e-9 }
