package checks

// C18 — distributed locks are mutually exclusive (etcd and redis back ends).
// C19 — a holder is told promptly when it loses its lock.
//
// Contenders use their OWN lock object per acquisition, obtained from store.CreateLock exactly as
// cluster/calcium/lock.go does. Every lock call is recorded at the client boundary (call stamp before invoking,
// return stamp after the reply, one monotonic clock); the critical section is stamped inside (enter after Lock
// returned, exit before Unlock is called). The history of one key is judged by an interval-overlap oracle and by
// porcupine against a sequential mutex model.

import (
	"context"
	"fmt"
	"math/rand"
	"sort"
	"strings"
	"sync"
	"testing"
	"time"

	"github.com/anishathalye/porcupine"
	"github.com/projecteru2/core/lock"
	"github.com/projecteru2/core/lock/etcdlock"
	redislock "github.com/projecteru2/core/lock/redis"
	"github.com/projecteru2/core/store/etcdv3/embedded"
	clientv3 "go.etcd.io/etcd/client/v3"

	"verifharness/sim"
	"verifharness/vkit"
)

type lockOp struct {
	Client int    `json:"client"`
	Op     string `json:"op"` // lock | trylock | unlock
	Call   int64  `json:"call_ns"`
	Ret    int64  `json:"ret_ns"`
	OK     bool   `json:"ok"`
	Err    string `json:"err,omitempty"`
}

type lockCS struct {
	Client  int   `json:"client"`
	Enter   int64 `json:"enter_ns"`
	Exit    int64 `json:"exit_ns"`
	CtxDone bool  `json:"lock_ctx_done_at_exit,omitempty"`
}

type lockHistory struct {
	Backend    string        `json:"backend"`
	Key        string        `json:"key"`
	TTL        time.Duration `json:"ttl_ns"`
	Contenders int           `json:"contenders"`
	Rounds     int           `json:"rounds"`
	LongHolder bool          `json:"long_holder"`
	Seed       int64         `json:"seed"`
	Ops        []lockOp      `json:"ops,omitempty"`
	CS         []lockCS      `json:"critical_sections,omitempty"`
	// MaxStall is the longest delay the history's own probe saw while the contenders ran: how much a 1 ms sleep
	// overshot (scheduler starvation) and, on etcd, how long a Put on an unrelated key took. The timing clauses
	// of the oracle (lease arithmetic, "without waiting") mean nothing on a machine that stalls for a sizeable
	// part of the ttl, so such a history is not judged (counted, never a violation).
	MaxStall time.Duration `json:"max_probe_stall_ns,omitempty"`
}

type lockIn struct {
	client int
	op     string
}

var mutexModel = porcupine.Model{
	Init: func() interface{} { return -1 },
	Step: func(state, input, output interface{}) (bool, interface{}) {
		holder := state.(int)
		in := input.(lockIn)
		ok := output.(bool)
		switch in.op {
		case "lock", "trylock":
			if ok {
				return holder == -1, in.client
			}
			// a refused try-lock / a timed-out lock saw the lock held by somebody else at some instant
			return holder != -1 && holder != in.client, holder
		case "unlock":
			if ok {
				return holder == in.client, -1
			}
			return true, holder // a failed unlock changes nothing (judged separately)
		}
		return false, state
	},
	Equal: func(a, b interface{}) bool { return a.(int) == b.(int) },
	DescribeOperation: func(input, output interface{}) string {
		in := input.(lockIn)
		return fmt.Sprintf("c%d.%s -> %v", in.client, in.op, output)
	},
}

func runLockHistory(s *stores, h *lockHistory) {
	st := s.backend(h.Backend)
	start := time.Now()
	now := func() int64 { return int64(time.Since(start)) }
	var mu sync.Mutex
	var wg sync.WaitGroup
	probeStop, probeDone := make(chan struct{}), make(chan struct{})
	go func() {
		defer close(probeDone)
		for i := 0; ; i++ {
			select {
			case <-probeStop:
				return
			default:
			}
			t0 := time.Now()
			time.Sleep(time.Millisecond)
			d := time.Since(t0) - time.Millisecond
			if i%4 == 0 {
				t1 := time.Now()
				if h.Backend == "etcd" {
					_, _ = s.cli.Put(context.Background(), "/probe/"+h.Key, "x")
				} else {
					_ = s.rcli.Set(context.Background(), "/probe/"+h.Key, "x", 0).Err()
				}
				if e := time.Since(t1); e > d {
					d = e
				}
			}
			if d > h.MaxStall {
				h.MaxStall = d
			}
		}
	}()
	defer func() { close(probeStop); <-probeDone }()
	for c := 0; c < h.Contenders; c++ {
		wg.Add(1)
		go func(c int) {
			defer wg.Done()
			r := rand.New(rand.NewSource(h.Seed + int64(c)*7919))
			ctx := context.Background()
			for k := 0; k < h.Rounds; k++ {
				time.Sleep(time.Duration(r.Intn(4000)) * time.Microsecond)
				l, err := st.CreateLock(h.Key, h.TTL)
				if err != nil {
					mu.Lock()
					h.Ops = append(h.Ops, lockOp{Client: c, Op: "create", Err: err.Error()})
					mu.Unlock()
					continue
				}
				op := "lock"
				if r.Intn(3) == 0 {
					op = "trylock"
				}
				t0 := now()
				var lctx context.Context
				if op == "lock" {
					lctx, err = l.Lock(ctx)
				} else {
					lctx, err = l.TryLock(ctx)
				}
				t1 := now()
				rec := lockOp{Client: c, Op: op, Call: t0, Ret: t1, OK: err == nil}
				if err != nil {
					rec.Err = err.Error()
				}
				mu.Lock()
				h.Ops = append(h.Ops, rec)
				mu.Unlock()
				if err != nil {
					// the lock object is abandoned the way calcium's doLock does it: Unlock on failure
					_ = l.Unlock(ctx)
					continue
				}
				enter := now()
				hold := time.Duration(r.Intn(12000)) * time.Microsecond
				if h.LongHolder && c == 0 && k == 0 {
					hold = h.TTL + h.TTL/4 // etcd only: the session keeps the lease alive, the holder stays within it
				} else if r.Intn(4) == 0 {
					// a long critical section, still well inside the lease (the oracle's excuse starts at 0.8 ttl):
					// a lease that is shorter than the ttl the contender asked for shows up as an overlap
					hold = time.Duration(r.Int63n(int64(h.TTL) * 3 / 4))
				}
				time.Sleep(hold)
				cs := lockCS{Client: c, Enter: enter}
				if lctx != nil {
					select {
					case <-lctx.Done():
						cs.CtxDone = true
					default:
					}
				}
				cs.Exit = now()
				mu.Lock()
				h.CS = append(h.CS, cs)
				mu.Unlock()
				u0 := now()
				err = l.Unlock(ctx)
				u1 := now()
				urec := lockOp{Client: c, Op: "unlock", Call: u0, Ret: u1, OK: err == nil}
				if err != nil {
					urec.Err = err.Error()
				}
				mu.Lock()
				h.Ops = append(h.Ops, urec)
				mu.Unlock()
			}
		}(c)
	}
	wg.Wait()
	sort.Slice(h.Ops, func(i, j int) bool { return h.Ops[i].Call < h.Ops[j].Call })
	sort.Slice(h.CS, func(i, j int) bool { return h.CS[i].Enter < h.CS[j].Enter })
}

func judgeLockHistory(rec *vkit.Rec, h *lockHistory) {
	b := h.Backend
	viol := func(key, what string) { rec.Violation(b+"/"+key, what+fmt.Sprintf(" — %s, %d contenders, ttl %v", b, h.Contenders, h.TTL), h) }
	switch {
	case h.MaxStall < h.TTL/100:
		rec.Count("probe_max_stall/"+b+"/below-1%-of-ttl", 1)
	case h.MaxStall < h.TTL/30:
		rec.Count("probe_max_stall/"+b+"/1-3%-of-ttl", 1)
	case h.MaxStall <= h.TTL/10:
		rec.Count("probe_max_stall/"+b+"/3-10%-of-ttl", 1)
	case h.MaxStall <= h.TTL/4:
		rec.Count("probe_max_stall/"+b+"/10-25%-of-ttl", 1)
	default:
		rec.Count("probe_max_stall/"+b+"/above-25%-of-ttl", 1)
	}
	if h.MaxStall > h.TTL/10 {
		rec.Count("histories_not_judged_machine_stalled/"+b, 1)
		return
	}
	// (1) critical sections must not overlap (holders stayed within their lease)
	excused := false
	for _, cs := range h.CS {
		// a holder that outlived its lease (its context was cancelled, or on redis the wall clock says so) is
		// outside the property's antecedent: what follows in that history is not judged against the mutex model
		// (a lock context that ends although its holder has had the lock for less than the lease it asked for is no
		// excuse: the lease was cut short by the lock itself)
		if held := time.Duration(cs.Exit - cs.Enter); held > h.TTL*8/10 && (cs.CtxDone || b == "redis") {
			excused = true
		}
	}
	if excused {
		rec.Count("histories_with_a_holder_that_outlived_its_lease/"+b, 1)
	}
	for i := 1; i < len(h.CS); i++ {
		p, c := h.CS[i-1], h.CS[i]
		if c.Enter < p.Exit {
			held := time.Duration(p.Exit - p.Enter)
			if held > h.TTL*8/10 && (p.CtxDone || b == "redis") {
				rec.Count("overlaps_excused_holder_outlived_its_lease/"+b, 1)
				excused = true
				continue
			}
			viol("critical-sections-overlap", fmt.Sprintf("client %d entered at %v while client %d (in since %v) only left at %v", c.Client, time.Duration(c.Enter), p.Client, time.Duration(p.Enter), time.Duration(p.Exit)))
			return
		}
	}
	// (4) a Lock that failed must have waited its whole timeout; (3') a refused TryLock must not have waited
	order := []string{}
	for _, o := range h.Ops {
		waited := time.Duration(o.Ret - o.Call)
		switch {
		case o.Op == "create":
			rec.Count("create_lock_errors/"+b, 1)
		case o.Op == "lock" && !o.OK:
			rec.Count("lock_timeouts/"+b, 1)
			if waited < h.TTL-5*time.Millisecond {
				viol("lock-failed-before-its-timeout", fmt.Sprintf("client %d's Lock failed (%s) after %v, its wait timeout is %v", o.Client, o.Err, waited, h.TTL))
				return
			}
		case o.Op == "trylock" && !o.OK:
			rec.Count("trylock_refused/"+b, 1)
			if waited > h.TTL/2 {
				viol("trylock-waited", fmt.Sprintf("client %d's TryLock was refused (%s) only after %v", o.Client, o.Err, waited))
				return
			}
		case (o.Op == "lock" || o.Op == "trylock") && o.OK:
			rec.Count("acquisitions/"+b, 1)
			if o.Op == "lock" && waited > 3*time.Millisecond {
				rec.Count("contended_acquisitions/"+b, 1)
			}
			order = append(order, fmt.Sprint(o.Client))
		case o.Op == "unlock" && !o.OK:
			overran := false // did this client's critical section outlive the lease (by the wall clock)?
			for _, cs := range h.CS {
				if cs.Client == o.Client && cs.Exit <= o.Call && time.Duration(cs.Exit-cs.Enter) > h.TTL*8/10 {
					overran = true
				}
			}
			if excused || overran {
				rec.Count("unlock_errors_after_lost_lease/"+b, 1)
			} else {
				viol("unlock-of-held-lock-fails", fmt.Sprintf("client %d's Unlock failed: %s", o.Client, o.Err))
				return
			}
		}
	}
	rec.SetAdd("acquisition_orders/"+b, strings.Join(order, ""))
	// (2) linearizability against the mutex model
	if !excused {
		ops := []porcupine.Operation{}
		for _, o := range h.Ops {
			if o.Op == "create" {
				continue
			}
			ops = append(ops, porcupine.Operation{ClientId: o.Client, Input: lockIn{o.Client, o.Op}, Output: o.OK, Call: o.Call, Return: o.Ret})
		}
		res := porcupine.CheckOperationsTimeout(mutexModel, ops, 30*time.Second)
		switch res {
		case porcupine.Illegal:
			viol("history-not-linearizable", "the recorded lock/try-lock/unlock history has no linearization under the mutex model")
			return
		case porcupine.Unknown:
			rec.Count("porcupine_timeouts", 1)
		default:
			rec.Count("histories_linearizable/"+b, 1)
		}
	}
	rec.Count("histories/"+b, 1)
	rec.Nontrivial(fmt.Sprintf("%s %d %d %d %v", b, h.Contenders, h.Rounds, h.Seed, h.LongHolder))
	rec.Sample(map[string]any{"backend": b, "contenders": h.Contenders, "rounds": h.Rounds, "ttl": h.TTL.String(), "lock_ops_recorded": len(h.Ops), "critical_sections": len(h.CS), "acquisition_order": strings.Join(order, "")})
}

func TestC18(t *testing.T) {
	env := vkit.Load("C18")
	rec := vkit.NewRec(env)
	defer rec.Finish()
	s := newStores(t)
	s.startRedisClock() // redis TTLs follow the wall clock, as on a real server
	defer s.stopRedisClock()
	r := env.Rand("c18")
	ctx := context.Background()

	if env.Replay != "" {
		var h lockHistory
		if err := vkit.ReadReplay(env.Replay, &h); err != nil {
			t.Fatal(err)
		}
		for a := 0; a < 10 && rec.NViolations() == 0; a++ {
			h2 := h
			h2.Ops, h2.CS = nil, nil
			h2.Key = fmt.Sprintf("replay%d", a)
			runLockHistory(s, &h2)
			rec.Eval()
			judgeLockHistory(rec, &h2)
		}
		return
	}

	// scenario A: free-running contention histories, several keys at a time
	n := env.Pick(200, 2400) / env.NBatch
	par := 8
	sem := make(chan struct{}, par)
	var wg sync.WaitGroup
	var jmu sync.Mutex
	for i := 0; i < n; i++ {
		h := &lockHistory{Backend: []string{"etcd", "redis"}[i%2], Key: fmt.Sprintf("k%d-%d", env.Batch, i), Contenders: 2 + r.Intn(5), Rounds: 2 + r.Intn(4), Seed: r.Int63()}
		if h.Backend == "etcd" {
			h.TTL = 2 * time.Second
			h.LongHolder = r.Intn(8) == 0
		} else {
			h.TTL = time.Second
		}
		wg.Add(1)
		sem <- struct{}{}
		go func() {
			defer wg.Done()
			defer func() { <-sem }()
			runLockHistory(s, h)
			jmu.Lock()
			rec.Eval()
			judgeLockHistory(rec, h)
			jmu.Unlock()
		}()
	}
	wg.Wait()

	// scenario B: a try-lock on a held lock must be refused while the holder still holds (the holder only
	// releases after the try-lock returned: a try-lock that waits for the lock can only run into its timeout)
	m := env.Pick(40, 400) / env.NBatch
	for i := 0; i < m; i++ {
		b := []string{"etcd", "redis"}[i%2]
		ttl := 2 * time.Second
		st := s.backend(b)
		key := fmt.Sprintf("t%d-%d", env.Batch, i)
		a, err1 := st.CreateLock(key, ttl)
		c, err2 := st.CreateLock(key, ttl)
		if err1 != nil || err2 != nil {
			rec.Inconclusive("CreateLock failed: %v %v", err1, err2)
			continue
		}
		rec.Eval()
		first := "lock"
		var err error
		if i%4 < 2 {
			_, err = a.Lock(ctx)
		} else {
			first = "trylock"
			_, err = a.TryLock(ctx)
		}
		if err != nil {
			rec.Violation(b+"/uncontended-"+first+"-fails", fmt.Sprintf("%s on a free key failed: %v", first, err), map[string]any{"backend": b, "first": first})
			continue
		}
		t0 := time.Now()
		_, err = c.TryLock(ctx)
		d := time.Since(t0)
		if err == nil {
			rec.Violation(b+"/trylock-on-held-lock-succeeds", "TryLock succeeded while another lock object holds the key (holder used "+first+")", map[string]any{"backend": b, "first": first})
		} else if d > ttl/2 {
			rec.Violation(b+"/trylock-waited", fmt.Sprintf("TryLock on a held lock returned (%v) only after %v", err, d), map[string]any{"backend": b, "first": first})
		} else {
			rec.Count("trylock_on_held_lock_refused_at_once/"+b, 1)
		}
		_ = c.Unlock(ctx)
		if err := a.Unlock(ctx); err != nil {
			rec.Violation(b+"/unlock-of-held-lock-fails", "Unlock of the holder failed: "+err.Error(), map[string]any{"backend": b})
		}
		// after the release the key is free again
		d2, _ := st.CreateLock(key, ttl)
		if _, err := d2.TryLock(ctx); err != nil {
			rec.Violation(b+"/trylock-after-release-fails", "TryLock after the holder released failed: "+err.Error(), map[string]any{"backend": b})
		} else {
			rec.Count("reacquired_after_release/"+b, 1)
		}
		_ = d2.Unlock(ctx)
	}
}

// ---- C19 ------------------------------------------------------------------------------------------------

type c19Case struct {
	Backend   string        `json:"backend"`
	TTL       time.Duration `json:"ttl_ns"`
	HolderOp  string        `json:"holder_op"` // lock | trylock
	Contender bool          `json:"contender_waiting"`
	Loss      string        `json:"loss"` // lease-revoked | ttl-elapsed | lease-revoked-during-acquisition
	// WaitFactor > 0 (redis): the lock objects are made by lock/redis.New directly with a wait timeout of WaitFactor x ttl
	// (store.CreateLock always passes wait timeout = ttl)
	WaitFactor int `json:"redis_wait_timeout_factor,omitempty"`
	LatencyMs int64         `json:"latency_ms,omitempty"`
}

// acqKV lets the harness act in the window between the etcd server committing a lock's acquiring transaction and
// the lock call returning to its caller: after runs once, right after the first transaction of this client that
// succeeded (the key was created), before the answer is handed back.
type acqKV struct {
	clientv3.KV
	once  sync.Once
	after func()
}

func (k *acqKV) Txn(ctx context.Context) clientv3.Txn { return &acqTxn{Txn: k.KV.Txn(ctx), k: k} }

type acqTxn struct {
	clientv3.Txn
	k *acqKV
}

func (t *acqTxn) If(cs ...clientv3.Cmp) clientv3.Txn   { t.Txn = t.Txn.If(cs...); return t }
func (t *acqTxn) Then(ops ...clientv3.Op) clientv3.Txn { t.Txn = t.Txn.Then(ops...); return t }
func (t *acqTxn) Else(ops ...clientv3.Op) clientv3.Txn { t.Txn = t.Txn.Else(ops...); return t }
func (t *acqTxn) Commit() (*clientv3.TxnResponse, error) {
	resp, err := t.Txn.Commit()
	if err == nil && resp.Succeeded {
		t.k.once.Do(t.k.after)
	}
	return resp, err
}

func TestC19(t *testing.T) {
	env := vkit.Load("C19")
	rec := vkit.NewRec(env)
	defer rec.Finish()
	if env.Replay != "" {
		var probe c19Cluster
		if err := vkit.ReadReplay(env.Replay, &probe); err == nil && probe.Scenario != "" {
			c19ClusterLevel(t, env, rec, &probe)
			return
		}
	} else if env.NBatch > 1 && env.Batch%2 == 1 {
		// odd batches: the same property one level up, at calcium's lock helpers (several locks held at once)
		c19ClusterLevel(t, env, rec, nil)
		return
	}
	s := newStores(t)
	r := env.Rand("c19")
	bg := context.Background()

	run := func(c *c19Case, key string) {
		st := s.backend(c.Backend)
		bound := 2 * c.TTL // the property's bound is one keepalive interval (ttl/3); only > 6 intervals is called a violation
		mk := func() (lock.DistributedLock, error) {
			if c.Backend == "redis" && c.WaitFactor > 0 {
				return redislock.New(s.rcli, key, time.Duration(c.WaitFactor)*c.TTL, c.TTL)
			}
			return st.CreateLock(key, c.TTL)
		}
		a, err := mk()
		if err != nil {
			rec.Inconclusive("CreateLock: %v", err)
			return
		}
		var actx context.Context
		if c.HolderOp == "trylock" {
			actx, err = a.TryLock(bg)
		} else {
			actx, err = a.Lock(bg)
		}
		if err != nil || actx == nil {
			rec.Inconclusive("holder could not take a free lock: %v", err)
			return
		}
		select {
		case <-actx.Done():
			rec.Violation(c.Backend+"/context-dead-on-arrival", "the context returned by a successful "+c.HolderOp+" is already cancelled", c)
			return
		default:
		}
		acquired := make(chan time.Time, 1)
		if c.Contender {
			go func() {
				b, err := mk()
				if err != nil {
					return
				}
				// the contender retries until it gets the lock (its single wait timeout equals the ttl)
				for i := 0; i < 4; i++ {
					if _, err := b.Lock(bg); err == nil {
						acquired <- time.Now()
						time.Sleep(bound + time.Second) // it keeps the lock while the old holder is being watched
						_ = b.Unlock(bg)
						return
					}
				}
			}()
			time.Sleep(time.Duration(50+r.Intn(300)) * time.Millisecond) // let it queue up
		}
		// the holder loses the lock
		t0 := time.Now()
		switch c.Backend {
		case "etcd":
			resp, err := s.cli.Get(bg, "/"+s.cfg.Etcd.LockPrefix+"/"+key+"/", clientv3.WithPrefix(), clientv3.WithSort(clientv3.SortByCreateRevision, clientv3.SortAscend))
			if err != nil || len(resp.Kvs) == 0 || resp.Kvs[0].Lease == 0 {
				rec.Inconclusive("cannot find the holder's lock key: %v (%d keys)", err, len(resp.Kvs))
				return
			}
			// the keepalive interval the holder runs with is a third of its lease's ttl: the lease must be the one the
			// caller asked for (the server's minimum lease ttl is 2 s), or "one keepalive interval" is not the caller's
			if ttlResp, err := s.cli.TimeToLive(bg, clientv3.LeaseID(resp.Kvs[0].Lease)); err == nil && ttlResp.GrantedTTL > 0 {
				want := int64((c.TTL + time.Second - 1) / time.Second)
				if want < 2 {
					want = 2
				}
				rec.Count("etcd_lock_leases_compared_with_the_requested_ttl", 1)
				if ttlResp.GrantedTTL > want {
					rec.Violation("etcd/lock-lease-longer-than-the-requested-ttl",
						fmt.Sprintf("a lock created through the store with ttl %v is backed by a lease of %d s: its holder's keepalive interval (a third of the lease) is %.1f s instead of %.1f s, a lost lock is noticed that much later", c.TTL, ttlResp.GrantedTTL, float64(ttlResp.GrantedTTL)/3, float64(want)/3), c)
					return
				}
			}
			if _, err := s.cli.Revoke(bg, clientv3.LeaseID(resp.Kvs[0].Lease)); err != nil {
				rec.Inconclusive("revoke: %v", err)
				return
			}
		case "redis":
			s.mr.FastForward(c.TTL + time.Millisecond)
		}
		rec.Count("losses/"+c.Backend+"/"+c.Loss, 1)
		coexistFrom := t0
		if c.Contender {
			select {
			case ta := <-acquired:
				coexistFrom = ta
				rec.Count("second_holder_acquired/"+c.Backend, 1)
			case <-time.After(3*c.TTL + 2*time.Second):
				rec.Inconclusive("%s: the waiting contender did not get the lock after the holder lost it", c.Backend)
				return
			}
		}
		select {
		case <-actx.Done():
			lat := time.Since(t0)
			c.LatencyMs = lat.Milliseconds()
			rec.Count("holders_notified/"+c.Backend, 1)
			rec.Max("max:notification_latency_ms/"+c.Backend, int(lat.Milliseconds()))
			switch {
			case lat <= c.TTL/3:
				rec.Count("latency_within_one_keepalive_interval/"+c.Backend, 1)
			case lat <= c.TTL:
				rec.Count("latency_within_ttl/"+c.Backend, 1)
			default:
				rec.Count("latency_above_ttl/"+c.Backend, 1)
			}
		case <-time.After(time.Until(coexistFrom.Add(bound))):
			who := "no contender"
			if c.Contender {
				who = "another contender holds the lock"
			}
			rec.Violation(fmt.Sprintf("%s/context-never-cancelled/%s", c.Backend, c.Loss),
				fmt.Sprintf("%v after the holder (%s) lost its lock (%s; %s) the context its lock returned is still live", bound, c.HolderOp, c.Loss, who), c)
		}
		_ = a.Unlock(bg)
		rec.Nontrivial(fmt.Sprintf("%+v", *c))
		rec.Sample(c)
	}

	// the holder loses its lease DURING the acquisition: after the server committed the acquiring transaction and
	// before Lock / TryLock returned (a stalled client, a revoke at that moment). The real etcdlock.Mutex runs on a
	// client of its own whose KV is decorated (acqKV); whatever the call returns, a context it returns with a nil
	// error must end within the bound.
	runDuring := func(c *c19Case, key string) {
		cluster := embedded.NewCluster(t, s.cfg.Etcd.Prefix)
		cliA, err := cluster.NewClientV3(0)
		if err != nil {
			rec.Inconclusive("client: %v", err)
			return
		}
		defer cliA.Close()
		cliB, err := cluster.NewClientV3(0)
		if err != nil {
			rec.Inconclusive("client: %v", err)
			return
		}
		defer cliB.Close()
		bound := 2 * c.TTL
		full := "/c19acq/" + key
		acquired := make(chan time.Time, 1)
		var hookErr error
		hook := &acqKV{KV: cliA.KV}
		hook.after = func() {
			if c.Contender {
				go func() {
					b, err := etcdlock.New(cliB, full, c.TTL)
					if err != nil {
						return
					}
					for i := 0; i < 4; i++ {
						if _, err := b.Lock(bg); err == nil {
							acquired <- time.Now()
							time.Sleep(bound + 2*time.Second)
							_ = b.Unlock(bg)
							return
						}
					}
				}()
				time.Sleep(100 * time.Millisecond)
			}
			resp, err := cliB.Get(bg, full+"/", clientv3.WithPrefix(), clientv3.WithSort(clientv3.SortByCreateRevision, clientv3.SortAscend))
			if err != nil || len(resp.Kvs) == 0 || resp.Kvs[0].Lease == 0 {
				hookErr = fmt.Errorf("cannot find the holder's lock key: %v (%d keys)", err, len(resp.Kvs))
				return
			}
			if _, err := cliB.Revoke(bg, clientv3.LeaseID(resp.Kvs[0].Lease)); err != nil {
				hookErr = fmt.Errorf("revoke: %v", err)
				return
			}
			// the answer of the acquiring transaction stays "on its way" until the client has had the time to learn
			// that its lease is gone (one keepalive interval and a bit)
			time.Sleep(c.TTL/3 + 700*time.Millisecond)
		}
		cliA.KV = hook
		a, err := etcdlock.New(cliA, full, c.TTL)
		if err != nil {
			rec.Inconclusive("etcdlock.New: %v", err)
			return
		}
		var actx context.Context
		if c.HolderOp == "trylock" {
			actx, err = a.TryLock(bg)
		} else {
			actx, err = a.Lock(bg)
		}
		returned := time.Now()
		if hookErr != nil {
			rec.Inconclusive("%v", hookErr)
			return
		}
		rec.Count("losses/"+c.Backend+"/"+c.Loss, 1)
		if err != nil || actx == nil {
			rec.Count("acquisition_reported_failure_after_loss/"+c.Backend, 1) // fine: nobody believes to hold the lock
			rec.Nontrivial(fmt.Sprintf("%+v", *c))
			return
		}
		coexistFrom := returned
		if c.Contender {
			select {
			case ta := <-acquired:
				if ta.After(coexistFrom) {
					coexistFrom = ta
				}
				rec.Count("second_holder_acquired/"+c.Backend, 1)
			case <-time.After(3*c.TTL + 2*time.Second):
				rec.Inconclusive("%s: the waiting contender did not get the lock after the holder lost it", c.Backend)
				return
			}
		}
		select {
		case <-actx.Done():
			lat := time.Since(returned)
			c.LatencyMs = lat.Milliseconds()
			rec.Count("holders_notified/"+c.Backend+"/"+c.Loss, 1)
			rec.Max("max:notification_latency_ms/"+c.Backend, int(lat.Milliseconds()))
		case <-time.After(time.Until(coexistFrom.Add(bound))):
			who := "no contender"
			if c.Contender {
				who = "another contender holds the lock"
			}
			rec.Violation(fmt.Sprintf("%s/context-never-cancelled/%s", c.Backend, c.Loss),
				fmt.Sprintf("%v after a %s returned successfully although its lease had been revoked while the call was in progress (%s), the context it returned is still live", bound, c.HolderOp, who), c)
		}
		_ = a.Unlock(bg)
		rec.Nontrivial(fmt.Sprintf("%+v", *c))
		rec.Sample(c)
	}
	dispatch := func(c *c19Case, key string) {
		if c.Loss == "lease-revoked-during-acquisition" {
			runDuring(c, key)
		} else {
			run(c, key)
		}
	}

	if env.Replay != "" {
		var c c19Case
		if err := vkit.ReadReplay(env.Replay, &c); err != nil {
			t.Fatal(err)
		}
		rec.Eval()
		dispatch(&c, "replay")
		return
	}
	n := env.Pick(64, 640) / env.NBatch
	var wg sync.WaitGroup
	sem := make(chan struct{}, 8)
	var mu sync.Mutex
	for i := 0; i < n; i++ {
		c := &c19Case{Backend: "etcd", TTL: 3 * time.Second, HolderOp: []string{"lock", "trylock"}[r.Intn(2)], Contender: r.Intn(4) != 0, Loss: "lease-revoked"}
		key := fmt.Sprintf("c19-%d-%d", env.Batch, i)
		rec.Eval()
		if i%4 == 3 {
			// redis losses move the shared virtual clock: one at a time, after the parallel etcd cases
			defer func(c *c19Case, key string, i int) {
				c.Backend, c.Loss, c.TTL = "redis", "ttl-elapsed", 2*time.Second
				if i%8 == 7 {
					c.WaitFactor = 4
					rec.Count("redis_locks_with_wait_timeout_4x_ttl", 1)
				}
				mu.Lock()
				run(c, key)
				mu.Unlock()
			}(c, key, i)
			continue
		}
		wg.Add(1)
		sem <- struct{}{}
		if i%4 == 1 {
			c.Loss = "lease-revoked-during-acquisition"
		}
		go func() {
			defer wg.Done()
			defer func() { <-sem }()
			dispatch(c, key)
		}()
	}
	wg.Wait()
}


// ---- C19 at calcium's lock helpers -------------------------------------------------------------------------

type c19Cluster struct {
	Scenario  string `json:"scenario"` // capacity-two-pods | realloc-nested
	Lose      string `json:"lose"`     // first | last  (acquisition order)
	Contender bool   `json:"contender_waiting"`
	LostKey   string `json:"lost_lock_key,omitempty"`
	LatencyMs int64  `json:"latency_ms,omitempty"`
}

// c19ClusterLevel parks a real Calcium operation inside its locked section (the resource-manager shim blocks the
// first plugin call made under the locks and keeps the context calcium passed to it), revokes the lease behind ONE
// of the locks the operation holds and watches that context: calcium derives each lock's context from the
// previous one, so losing any held lock must cancel the context the operation runs under.
func c19ClusterLevel(t *testing.T, env *vkit.Env, rec *vkit.Rec, replay *c19Cluster) {
	ttl := 3 * time.Second
	b := sim.NewBoundary()
	cl := sim.Boot(t, b, sim.BootOpts{LockTimeout: ttl}, nil)
	cli := cl.EtcdClient()
	bg := context.Background()
	r := env.Rand("c19b")
	topo := &sim.Topology{Pods: []string{"pa", "pb"}, Nodes: []sim.NodeSpec{
		{Name: "n1", Pod: "pa", Cores: 4, Memory: 8 << 30, Up: true}, {Name: "n2", Pod: "pb", Cores: 4, Memory: 8 << 30, Up: true}}}
	model := sim.NewModel()

	run := func(c *c19Cluster) {
		cl.WaitQuiet(quietPatience)
		cl.WipeEtcd()
		sim.ResetAllHosts()
		cl.Locks.Reset()
		model = sim.NewModel()
		if err := cl.Install(topo); err != nil {
			rec.Inconclusive("install: %v", err)
			return
		}
		rec.Eval()
		res := cl.Exec(model, sim.Op{Kind: "create", App: "app", Entry: "web", Pod: "pa", Strategy: "AUTO", Count: 1, Includes: []string{"n1"}, Res: sim.Res{CPU: 0.5, Memory: 1 << 24}}, "setup")
		model.Apply(sim.Op{Kind: "create"}, res)
		cl.WaitQuiet(quietPatience)
		ids := model.Sorted()
		if len(ids) != 1 {
			rec.Inconclusive("setup create failed: %+v", res)
			return
		}
		entered := make(chan context.Context, 1)
		release := make(chan struct{})
		want := "GetNodesDeployCapacity"
		if c.Scenario == "realloc-nested" {
			want = "Realloc"
		}
		cl.Rmgr.CtxHook = func(op string, ctx context.Context) {
			if op != want {
				return
			}
			select {
			case entered <- ctx:
			default:
				return
			}
			select {
			case <-release:
			case <-time.After(60 * time.Second):
			}
		}
		defer func() { cl.Rmgr.CtxHook = nil }()
		opDone := make(chan struct{})
		var keys []string // lock keys in acquisition order
		go func() {
			defer close(opDone)
			switch c.Scenario {
			case "capacity-two-pods":
				cl.Exec(model, sim.Op{Kind: "capacity", App: "app", Entry: "web", Strategy: "AUTO", Includes: []string{"n2", "n1"}, Res: sim.Res{CPU: 0.1, Memory: 1 << 20}}, "held")
			case "realloc-nested":
				cl.Exec(model, sim.Op{Kind: "realloc", IDs: ids, Res: sim.Res{Memory: 1 << 20}}, "held")
			}
		}()
		if c.Scenario == "capacity-two-pods" {
			keys = []string{"plock_pa", "plock_pb"}
		} else {
			keys = []string{"plock_pa", "clock_" + ids[0]}
		}
		var opCtx context.Context
		select {
		case opCtx = <-entered:
		case <-time.After(30 * time.Second):
			rec.Inconclusive("%s: the operation never reached the parked call", c.Scenario)
			close(release)
			return
		}
		lost := keys[0]
		if c.Lose == "last" {
			lost = keys[len(keys)-1]
		}
		c.LostKey = lost
		// the operation must hold every key now
		for _, k := range keys {
			resp, err := cli.Get(bg, "/"+cl.Cfg.Etcd.LockPrefix+"/"+k+"/", clientv3.WithPrefix())
			if err != nil || len(resp.Kvs) != 1 {
				rec.Inconclusive("%s: expected exactly one holder key for %s, found %d (%v)", c.Scenario, k, len(resp.Kvs), err)
				close(release)
				<-opDone
				return
			}
		}
		acquired := make(chan time.Time, 1)
		if c.Contender {
			go func() {
				l, err := cl.Raw.CreateLock(lost, ttl)
				if err != nil {
					return
				}
				for i := 0; i < 4; i++ {
					if _, err := l.Lock(bg); err == nil {
						acquired <- time.Now()
						time.Sleep(2*ttl + time.Second)
						_ = l.Unlock(bg)
						return
					}
				}
			}()
			time.Sleep(time.Duration(50+r.Intn(200)) * time.Millisecond)
		}
		resp, err := cli.Get(bg, "/"+cl.Cfg.Etcd.LockPrefix+"/"+lost+"/", clientv3.WithPrefix(), clientv3.WithSort(clientv3.SortByCreateRevision, clientv3.SortAscend))
		if err != nil || len(resp.Kvs) == 0 || resp.Kvs[0].Lease == 0 {
			rec.Inconclusive("cannot find the holder's key of %s", lost)
			close(release)
			<-opDone
			return
		}
		t0 := time.Now()
		if _, err := cli.Revoke(bg, clientv3.LeaseID(resp.Kvs[0].Lease)); err != nil {
			rec.Inconclusive("revoke: %v", err)
		}
		rec.Count("cluster/losses/"+c.Scenario+"/"+c.Lose, 1)
		from := t0
		if c.Contender {
			select {
			case from = <-acquired:
				rec.Count("cluster/second_holder_acquired", 1)
			case <-time.After(3*ttl + 2*time.Second):
				rec.Inconclusive("cluster: the waiting contender did not get %s after the holder lost it", lost)
			}
		}
		select {
		case <-opCtx.Done():
			lat := time.Since(t0)
			c.LatencyMs = lat.Milliseconds()
			rec.Count("cluster/operations_notified", 1)
			rec.Max("max:cluster/notification_latency_ms", int(lat.Milliseconds()))
			if lat <= ttl/3 {
				rec.Count("cluster/latency_within_one_keepalive_interval", 1)
			}
		case <-time.After(time.Until(from.Add(2 * ttl))):
			rec.Violation(fmt.Sprintf("calcium/%s/%s-lock-lost/context-still-live", c.Scenario, c.Lose),
				fmt.Sprintf("an operation (%s) holding the locks %v lost %s (lease revoked, contender waiting: %v); %v later the context it runs under is still live", c.Scenario, keys, lost, c.Contender, 2*ttl), c)
		}
		close(release)
		select {
		case <-opDone:
		case <-time.After(60 * time.Second):
			rec.Inconclusive("the parked operation did not return after its release")
		}
		rec.Nontrivial(fmt.Sprintf("%+v", *c))
		rec.Sample(c)
	}
	if replay != nil {
		run(replay)
		return
	}
	n := env.Pick(16, 160) / ((env.NBatch + 1) / 2)
	for i := 0; i < n; i++ {
		run(&c19Cluster{Scenario: []string{"capacity-two-pods", "realloc-nested"}[i%2], Lose: []string{"first", "last"}[(i/2)%2], Contender: r.Intn(4) != 0})
	}
}
