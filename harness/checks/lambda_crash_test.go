package checks

// C30 across a crash: the core instance running a run-and-wait request stops at a boundary call after the
// create-lambda recovery-log entry was written (while fetching the logs, waiting for the exit code, removing); a
// fresh instance on the same store and log file runs the recovery. The workloads the request started must still be
// removed from the cluster (record, container, usage) and no create-lambda entry may stay open.

import (
	"context"
	"fmt"
	"path/filepath"
	"testing"
	"time"

	"github.com/projecteru2/core/types"

	"verifharness/sim"
	"verifharness/vkit"
)

type lambdaCrashCase struct {
	Count   int      `json:"count"`
	CrashAt string   `json:"crash_at_boundary_call"`
	Index   int      `json:"occurrence"`
	Events  []string `json:"events_until_crash,omitempty"`
	After   []string `json:"events_of_recovery,omitempty"`
}

func c30Crash(t *testing.T, env *vkit.Env, rec *vkit.Rec, replay *lambdaCrashCase) {
	b := sim.NewBoundary()
	ctx := context.Background()
	tmp := t.TempDir()
	var base *sim.Cluster
	var retired []string
	run := 0
	one := func(lc *lambdaCrashCase) {
		run++
		for _, inst := range retired {
			b.Freeze(inst)
			if base != nil {
				for _, l := range base.Locks.HeldByInst(inst) {
					l.ForceRelease()
				}
			}
		}
		retired = nil
		walFile := filepath.Join(tmp, fmt.Sprintf("lambda-%d.wal", run))
		instA, instB := fmt.Sprintf("LA%d", run), fmt.Sprintf("LB%d", run)
		a := sim.Boot(t, b, sim.BootOpts{Inst: instA, WALFile: walFile}, base)
		if base == nil {
			base = a
		}
		retired = append(retired, instA, instB)
		a.WipeEtcd()
		sim.ResetAllHosts()
		b.ResetLog()
		a.Locks.Reset()
		topo := &sim.Topology{Pods: []string{"pa"}, Nodes: []sim.NodeSpec{{Name: "n1", Pod: "pa", Cores: 4, Memory: 8 << 30, Up: true}, {Name: "n10", Pod: "pa", Cores: 4, Memory: 8 << 30, Up: true}}}
		if err := a.Install(topo); err != nil {
			rec.Inconclusive("install failed: %v", err)
			return
		}
		script := sim.LambdaScript{Stdout: []string{"line 0", "line 1"}, ExitCode: 0}
		for _, n := range topo.Nodes {
			sim.GetHost(sim.Prefix + n.Name).SetLambdaScript(func(*sim.Container) sim.LambdaScript { return script })
		}
		waitSettled(b, 10*time.Millisecond, 5*time.Second)
		rec.Eval()
		seq0 := b.Seq()
		plan := &sim.FaultPlan{Kind: "crash", Match: lc.CrashAt, Index: lc.Index, Inst: instA}
		b.Arm(plan)
		opts := &types.DeployOptions{Name: "lam", Entrypoint: &types.Entrypoint{Name: "job"}, Podname: "pa", Image: "img", Count: lc.Count,
			DeployStrategy: "AUTO", Resources: sim.Res{CPU: 0.2, Memory: 1 << 24}.Raw(), NodeFilter: &types.NodeFilter{Podname: "pa"}}
		finished := make(chan struct{})
		go func() {
			defer close(finished)
			_, ch, err := a.C.RunAndWait(a.Ctx("lambda"), opts, nil)
			if err != nil {
				return
			}
			for range ch {
			}
		}()
		deadline := time.After(60 * time.Second)
	wait:
		for {
			select {
			case <-finished:
				break wait
			case <-deadline:
				break wait
			default:
				if plan.Fired() {
					break wait
				}
				time.Sleep(time.Millisecond)
			}
		}
		waitSettled(b, 20*time.Millisecond, 10*time.Second)
		b.Disarm()
		if !plan.Fired() {
			rec.Count("crash/requests_that_finished_before_the_crash_point", 1)
			a.WaitQuiet(quietPatience)
			b.Freeze(instA)
			_ = a.WAL.Real.Close()
			return
		}
		lc.Events = eventsBrief(b.EventsSince(seq0))
		rec.Count("crash/crashes", 1)
		rec.SetAdd("crash/sites", lc.CrashAt)
		_ = a.WAL.Real.Close()
		for _, l := range a.Locks.HeldByInst(instA) {
			l.ForceRelease()
		}
		seq1 := b.Seq()
		bcl := sim.Boot(t, b, sim.BootOpts{Inst: instB, WALFile: walFile}, base)
		bcl.C.DisasterRecover(bcl.Ctx("recover"))
		if !bcl.WaitQuiet(20 * time.Second) {
			rec.Count("crash/recoveries_not_quiet_within_20s", 1)
		}
		bcl.WaitQuietWindow(400*time.Millisecond, 20*time.Second) // the lambda handler works in a goroutine of its own
		lc.After = eventsBrief(b.EventsSince(seq1))
		rec.Count("crash/recoveries", 1)
		viol := func(effect, what string) {
			rec.Violation("run-and-wait/crash@"+lc.CrashAt+"/"+effect, fmt.Sprintf("%s — %d instance(s), the instance stopped at occurrence %d of %s, then a fresh instance recovered", what, lc.Count, lc.Index, lc.CrashAt), lc)
		}
		snap := bcl.Snapshot(ctx)
		if len(snap.Workloads) > 0 {
			viol("record-left", fmt.Sprintf("%d workload record(s) remain after the recovery", len(snap.Workloads)))
			return
		}
		for h, l := range snap.Containers {
			if len(l) > 0 {
				// excepted: a container created in the instant before the crash whose create-workload entry was not logged yet
				logged := false
				for _, e := range lc.Events {
					if e != "" && len(e) > 0 && containsAll(e, "wal.Log(create-workload)") {
						logged = true
					}
				}
				if logged {
					viol("container-left", fmt.Sprintf("host %s still has container(s) %v", h, l))
					return
				}
				rec.Count("crash/excepted_unlogged_containers", 1)
			}
		}
		if probs := problemsOf(bcl.CheckInvariants(ctx, snap), "usage-mismatch", "over-capacity"); len(probs) > 0 {
			viol("usage-left", probs[0].What)
			return
		}
		for _, typ := range bcl.WAL.Open() {
			if typ == "create-lambda" {
				viol("wal-entry-not-committed", "a create-lambda entry is still open after the recovery")
				return
			}
		}
		rec.Nontrivial(fmt.Sprintf("crash %s#%d x%d", lc.CrashAt, lc.Index, lc.Count))
	}
	if replay != nil {
		replay.Events, replay.After = nil, nil
		one(replay)
		return
	}
	// one instance per request: every crash site below lies after that instance's create-lambda entry was written
	// (with several instances a sibling may be created but not yet entered in the log at the crash instant: nothing
	// promises its removal)
	// ... and before the removal has changed anything: the removal itself (release usage, delete the record, remove the
	// container) is not covered by the recovery log, a crash in the middle of it is outside what C30 (and C14, which is
	// about creation) promise. Observed when those sites were tried: a crash between the release and the record's
	// deletion makes the recovery release again (usage -0.2), one between the deletion and the container's removal
	// leaves the container - recorded in DESIGN.md as observations, not judged here.
	sites := []string{"engine.VirtualizationLogs", "engine.VirtualizationWait", "rmgr.SetNodeResourceUsage"}
	n := env.Pick(6, 30)
	for i := 0; i < n; i++ {
		one(&lambdaCrashCase{Count: 1, CrashAt: sites[i%len(sites)], Index: 1})
	}
}

func containsAll(s string, subs ...string) bool {
	for _, x := range subs {
		found := false
		for i := 0; i+len(x) <= len(s); i++ {
			if s[i:i+len(x)] == x {
				found = true
				break
			}
		}
		if !found {
			return false
		}
	}
	return true
}
