package checks

// C10 / C11 / C12 — history and fault-enumeration monitors over a real Calcium (embedded etcd, real cpumem
// plugin, real bbolt WAL) with the in-memory engine and recording shims (package sim).

import (
	"context"
	"fmt"
	"math/rand"
	"sort"
	"strings"
	"sync"
	"testing"
	"time"

	"verifharness/sim"
	"verifharness/vkit"
)

const quietPatience = 10 * time.Second

type world struct {
	t     *testing.T
	env   *vkit.Env
	rec   *vkit.Rec
	b     *sim.Boundary
	cl    *sim.Cluster
	model *sim.Model
	topo  *sim.Topology
	opN   int
}

func newWorld(t *testing.T, env *vkit.Env, rec *vkit.Rec, redis bool) *world {
	return newWorldOpts(t, env, rec, sim.BootOpts{Redis: redis})
}

func newWorldOpts(t *testing.T, env *vkit.Env, rec *vkit.Rec, o sim.BootOpts) *world {
	b := sim.NewBoundary()
	cl := sim.Boot(t, b, o, nil)
	return &world{t: t, env: env, rec: rec, b: b, cl: cl, model: sim.NewModel()}
}

// withSlots gives the create / realloc operations of a scenario a request to the second plugin (plugin layer).
func withSlots(r *rand.Rand, ops ...*sim.Op) {
	for _, op := range ops {
		switch op.Kind {
		case "create":
			op.Res.Slots = int64(r.Intn(4))
		case "realloc":
			op.Res.Slots = int64(r.Intn(5) - 2)
		}
	}
}

// rebuild wipes all state and installs topo, then runs the setup operations without faults.
func (w *world) rebuild(topo *sim.Topology, setup []sim.Op) error {
	w.cl.WaitQuiet(10 * time.Second)
	w.b.Disarm()
	w.cl.WipeEtcd()
	sim.ResetAllHosts()
	w.b.ResetLog()
	w.cl.Locks.Reset()
	w.model = sim.NewModel()
	w.topo = topo
	if err := w.cl.Install(topo); err != nil {
		return err
	}
	for _, op := range setup {
		r := w.exec(op, nil)
		if r.TimedOut {
			return fmt.Errorf("setup op %s timed out", op.Kind)
		}
	}
	w.cl.WaitQuiet(10 * time.Second)
	return nil
}

// exec runs one operation with an optional fault plan, updates the model and waits for quiescence.
func (w *world) exec(op sim.Op, plan *sim.FaultPlan) *sim.Result {
	w.opN++
	w.cl.WaitQuiet(10 * time.Second)
	w.b.Arm(plan)
	r := w.cl.Exec(w.model, op, fmt.Sprintf("op%d", w.opN))
	if !r.TimedOut {
		if !w.cl.WaitQuiet(20 * time.Second) {
			w.rec.Count("quiescence_timeouts", 1)
		}
	}
	r.PlanSize = w.b.Disarm()
	w.model.Apply(op, r)
	return r
}

func faultName(p *sim.FaultPlan) string {
	if p == nil || !p.Fired() {
		return "no-fault"
	}
	at := p.FiredAt
	if i := strings.IndexByte(at, '('); i > 0 {
		at = at[:i]
	}
	return "fault@" + at
}

func problemsOf(ps []sim.Problem, kinds ...string) []sim.Problem {
	out := []sim.Problem{}
	for _, p := range ps {
		for _, k := range kinds {
			if p.Kind == k {
				out = append(out, p)
			}
		}
	}
	return out
}

type histCase struct {
	Topology *sim.Topology  `json:"topology"`
	Setup    []sim.Op       `json:"setup,omitempty"`
	Ops      []sim.Op       `json:"ops"`
	Faults   []*sim.FaultPlan `json:"faults,omitempty"` // per op (nil = none)
	Mode     string         `json:"mode"`
	Saturate []bool         `json:"saturate_pool_pattern,omitempty"` // C20 small-pool batches: which realloc / set-node ops run under a saturated pool
	FailedAt int            `json:"failed_at_op"`
	Events   []string       `json:"events_of_failing_op,omitempty"`
	PluginLayer bool        `json:"plugin_layer,omitempty"` // decorated plugins + second plugin (sim.BootOpts.PluginLayer)
}

func eventsBrief(evs []sim.Event) []string {
	out := []string{}
	for _, e := range evs {
		if e.Ret {
			if e.Err != "" {
				out = append(out, fmt.Sprintf("   <- %s.%s err=%s", e.Layer, e.Op, e.Err))
			}
			continue
		}
		s := fmt.Sprintf("#%d %s.%s(%s)", e.Index, e.Layer, e.Op, e.Arg)
		if e.Injected {
			s += " [INJECTED]"
		}
		out = append(out, s)
	}
	if len(out) > 120 {
		out = out[:120]
	}
	return out
}

// ---- C10 --------------------------------------------------------------------------------------

func TestC10(t *testing.T) {
	env := vkit.Load("C10")
	rec := vkit.NewRec(env)
	defer rec.Finish()
	// odd batches: plugin layer (decorated plugins as fault positions, a second plugin, requests to it)
	pluginLayer := env.Batch%2 == 1
	var replayed histCase
	if env.Replay != "" {
		if err := vkit.ReadReplay(env.Replay, &replayed); err != nil {
			t.Fatal(err)
		}
		pluginLayer = replayed.PluginLayer
	}
	w := newWorldOpts(t, env, rec, sim.BootOpts{PluginLayer: pluginLayer})
	ctx := context.Background()
	r := env.Rand("c10")
	rs := env.Rand("c10-slots")

	judge := func(hc *histCase, opKind, fault string, seq0 int64) bool {
		snap := w.cl.Snapshot(ctx)
		probs := problemsOf(w.cl.CheckInvariants(ctx, snap), "usage-mismatch", "over-capacity")
		rec.Count("quiescent_points_checked", 1)
		if len(probs) == 0 {
			return true
		}
		hc.Events = eventsBrief(w.b.EventsSince(seq0))
		key := fmt.Sprintf("%s/%s/%s", opKind, fault, probs[0].Kind)
		rec.Violation(key, fmt.Sprintf("%s (after %s, %s; %d problem(s))", probs[0].What, opKind, fault, len(probs)), hc)
		return false
	}

	// "contended" mode: operations on the SAME workload run concurrently under the serialising random scheduler
	// (every meta.KV call of the etcd store, every plugin / engine / WAL call is a step)
	w.cl.InstallKVShim()
	sched := sim.NewSched(w.b, "kv", "rmgr", "engine", "wal")
	defer sched.Close()
	contendedRound := func(hc *histCase, topo *sim.Topology, i int) bool {
		seq0 := w.b.Seq()
		ids := w.model.Sorted()
		if len(ids) == 0 {
			op := sim.GenCreate(r, topo)
			hc.Ops = append(hc.Ops, op)
			w.exec(op, nil)
			return true
		}
		target := ids[r.Intn(len(ids))]
		k := 2 + r.Intn(2)
		ops := []sim.Op{}
		kinds := []string{}
		for j := 0; j < k; j++ {
			var op sim.Op
			switch r.Intn(7) {
			case 6:
				// the node resource check with repair on the workload's node, while the workload is being changed
				op = sim.Op{Kind: "node-repair", Node: w.model.Live[target]}
			case 0, 1:
				op = sim.Op{Kind: "remove", IDs: []string{target}}
			case 2:
				op = sim.Op{Kind: "dissociate", IDs: []string{target}}
			case 3:
				op = sim.Op{Kind: "realloc", IDs: []string{target}, Res: sim.Res{Keep: r.Intn(2) == 0, Bind: r.Intn(2) == 0, CPU: []float64{0, 0.25, -0.1}[r.Intn(3)], Memory: int64(r.Intn(3)-1) << 22}}
			case 4:
				op = sim.Op{Kind: "replace", IDs: []string{target}, App: "app", Entry: "web"}
			default:
				op = sim.Op{Kind: "control", IDs: []string{target}, Control: []string{"stop", "start"}[r.Intn(2)]}
			}
			ops = append(ops, op)
			kinds = append(kinds, op.Kind)
		}
		sort.Strings(kinds)
		hc.Ops = append(hc.Ops, ops...)
		hc.FailedAt = i
		w.cl.WaitQuiet(quietPatience)
		w.b.Arm(nil)
		sched.Enable(rand.New(rand.NewSource(r.Int63())))
		var wg sync.WaitGroup
		results := make([]*sim.Result, len(ops))
		for j := range ops {
			wg.Add(1)
			w.opN++
			go func(j int) {
				defer wg.Done()
				results[j] = w.cl.Exec(w.model, ops[j], fmt.Sprintf("x%d:%s", j, ops[j].Kind))
			}(j)
		}
		wg.Wait()
		w.cl.WaitQuiet(20 * time.Second)
		trace := sched.Disable()
		w.cl.WaitQuiet(quietPatience)
		w.b.Disarm()
		rec.Count("contended_rounds", 1)
		rec.Count("contended_sched_steps", len(trace))
		rec.SetAdd("contended_op_mixes", strings.Join(kinds, "+"))
		for j, res := range results {
			w.model.Apply(ops[j], res)
			rec.Count("ops/"+ops[j].Kind, 1)
			if res.TimedOut {
				rec.Skip("operation stream did not close (reported under C12/C29)")
				return false
			}
		}
		// a replaced workload lives on under a new id the model learns from the result; drop ids that no longer exist
		for id := range w.model.Live {
			if _, err := w.cl.Raw.GetWorkload(ctx, id); err != nil {
				delete(w.model.Live, id)
			}
		}
		// finding key: the colliding pair that explains a mismatch, not every operation of the round
		has := func(k string) bool {
			for _, x := range kinds {
				if x == k {
					return true
				}
			}
			return false
		}
		label := "contended:" + strings.Join(kinds, "+")
		if has("replace") && (has("remove") || has("dissociate")) {
			label = "contended:replace||remove-or-dissociate"
		} else if has("replace") && has("realloc") {
			label = "contended:replace||realloc"
		} else if has("replace") && has("node-repair") {
			label = "contended:replace||node-repair"
		}
		return judge(hc, label, "no-fault", seq0)
	}

	runHistory := func(mode string, nops int) {
		topo := sim.GenTopology(r, true)
		hc := &histCase{Topology: topo, Mode: mode, PluginLayer: pluginLayer}
		if err := w.rebuild(topo, nil); err != nil {
			rec.Inconclusive("rebuild failed: %v", err)
			return
		}
		rec.Eval()
		interesting := false
		for i := 0; i < nops; i++ {
			seq0 := w.b.Seq()
			switch mode {
			case "sequential", "single-fault":
				op := sim.GenOp(r, topo)
				var plan *sim.FaultPlan
				if mode == "single-fault" && r.Intn(2) == 0 {
					plan = &sim.FaultPlan{Kind: "fail", Index: 1 + r.Intn(24)}
				}
				if pluginLayer && mode == "single-fault" && plan == nil && op.Kind == "realloc" {
					plan = &sim.FaultPlan{Kind: "fail", Index: 1} // re-allocations of plugin-layer batches always carry a fault
				}
				if pluginLayer {
					withSlots(rs, &op)
					if plan != nil { // operations make about twice as many boundary calls with the plugin layer
						plan.Index = 1 + rs.Intn(56)
						if rs.Intn(3) == 0 || op.Kind == "realloc" { // aimed at the commit inside the resource manager: one plugin's usage write
							plan.Match = "plugin." + []string{"cpumem", sim.SlotsName}[rs.Intn(2)] + ".SetNodeResourceUsage"
							plan.Index = 1 + rs.Intn(2)
						}
					}
				}
				hc.Ops = append(hc.Ops, op)
				hc.Faults = append(hc.Faults, plan)
				hc.FailedAt = i
				res := w.exec(op, plan)
				rec.Count("ops/"+op.Kind, 1)
				if res.TimedOut {
					rec.Count("op_timeouts", 1)
					rec.Skip("operation stream did not close (reported under C12/C29)")
					return
				}
				if plan.Fired() {
					rec.Count("faults_fired", 1)
					rec.SetAdd("fault_sites", op.Kind+"@"+faultName(plan))
					interesting = true
				}
				if res.AnyFailed() {
					rec.Count("ops_with_failed_parts", 1)
				}
				if !judge(hc, op.Kind, faultName(plan), seq0) {
					return
				}
			case "contended":
				if !contendedRound(hc, topo, i) {
					return
				}
				interesting = true
			case "concurrent":
				k := 3 + r.Intn(6)
				ops := []sim.Op{}
				// distinct workloads: every op gets its own pick index
				live := len(w.model.Live)
				for j := 0; j < k; j++ {
					op := sim.GenOp(r, topo)
					if len(op.Picks) > 0 {
						if live == 0 {
							op = sim.GenCreate(r, topo)
						} else {
							op.Picks = []int{j} // different workloads as long as live >= k
						}
					}
					ops = append(ops, op)
				}
				hc.Ops = append(hc.Ops, ops...)
				hc.FailedAt = i
				w.b.JitterEvery, w.b.JitterDur = 3, 300*time.Microsecond
				w.b.Arm(nil)
				var wg sync.WaitGroup
				results := make([]*sim.Result, len(ops))
				// picks are resolved against the model before the goroutines start
				ids := w.model.Sorted()
				for j := range ops {
					if len(ops[j].Picks) > 0 && len(ids) > 0 {
						ops[j].IDs = []string{ids[ops[j].Picks[0]%len(ids)]}
					}
				}
				seen := map[string]bool{}
				for j := range ops {
					if len(ops[j].IDs) > 0 {
						if seen[ops[j].IDs[0]] {
							ops[j] = sim.GenCreate(r, topo)
						} else {
							seen[ops[j].IDs[0]] = true
						}
					}
				}
				if pluginLayer {
					for j := range ops {
						withSlots(rs, &ops[j])
					}
				}
				var maxInflight int64
				stop := make(chan struct{})
				go func() {
					for {
						select {
						case <-stop:
							return
						default:
							if n := w.b.Inflight(); n > maxInflight {
								maxInflight = n
							}
							time.Sleep(200 * time.Microsecond)
						}
					}
				}()
				for j := range ops {
					wg.Add(1)
					w.opN++
					go func(j int) {
						defer wg.Done()
						results[j] = w.cl.Exec(w.model, ops[j], fmt.Sprintf("c%d", j))
					}(j)
				}
				wg.Wait()
				close(stop)
				w.b.JitterEvery = 0
				w.cl.WaitQuiet(20 * time.Second)
				w.b.Disarm()
				rec.Max("max:concurrent_boundary_calls_in_flight", int(maxInflight))
				timedOut := false
				for j, res := range results {
					w.model.Apply(ops[j], res)
					rec.Count("ops/"+ops[j].Kind, 1)
					if res.TimedOut {
						timedOut = true
					}
				}
				if timedOut {
					rec.Skip("operation stream did not close (reported under C12/C29)")
					return
				}
				interesting = true
				rec.Count("concurrent_rounds", 1)
				if !judge(hc, "concurrent", "no-fault", seq0) {
					return
				}
			}
		}
		// the node resource check must report no resource differences either
		for _, n := range topo.Nodes {
			nr, err := w.cl.C.NodeResource(w.cl.Ctx("check"), n.Name, false)
			if err != nil {
				continue
			}
			for _, d := range nr.Diffs {
				if strings.Contains(d, "inspect failed") {
					continue
				}
				rec.Violation("node-resource-check/reports-difference", fmt.Sprintf("NodeResource(%s) reports %q at the end of a %s history", n.Name, d, mode), hc)
				return
			}
			rec.Count("node_resource_checks", 1)
		}
		if interesting || mode == "sequential" {
			rec.Nontrivial(fmt.Sprintf("%v", hc.Ops))
			rec.Sample(map[string]any{"mode": mode, "nodes": len(topo.Nodes), "ops": opsBrief(hc.Ops)})
		}
	}

	if env.Replay != "" {
		replayHistory(w, rec, &replayed)
		return
	}
	nh := env.Pick(36, 600) / env.NBatch
	if nh < 3 {
		nh = 3
	}
	for i := 0; i < nh; i++ {
		mode := []string{"sequential", "single-fault", "contended", "concurrent", "single-fault", "contended"}[i%6]
		n := 10 + r.Intn(env.Pick(20, 50))
		if mode == "concurrent" {
			n = 3 + r.Intn(4)
		}
		if mode == "contended" {
			n = 8 + r.Intn(8)
		}
		runHistory(mode, n)
	}
}

func opsBrief(ops []sim.Op) []string {
	out := []string{}
	for _, o := range ops {
		out = append(out, o.String())
	}
	if len(out) > 12 {
		out = append(out[:12], fmt.Sprintf("… %d more", len(ops)-12))
	}
	return out
}

// replayHistory re-executes a recorded history (sequential / single-fault modes) and prints what it sees.
func replayHistory(w *world, rec *vkit.Rec, hc *histCase) {
	ctx := context.Background()
	if err := w.rebuild(hc.Topology, hc.Setup); err != nil {
		rec.Inconclusive("rebuild failed: %v", err)
		return
	}
	for i, op := range hc.Ops {
		var plan *sim.FaultPlan
		if i < len(hc.Faults) && hc.Faults[i] != nil {
			plan = &sim.FaultPlan{Kind: hc.Faults[i].Kind, Index: hc.Faults[i].Index, Match: hc.Faults[i].Match}
		}
		res := w.exec(op, plan)
		rec.Eval()
		snap := w.cl.Snapshot(ctx)
		probs := w.cl.CheckInvariants(ctx, snap)
		fmt.Printf("replay op %d %s -> failed=%v fault=%s problems=%d\n", i, op.String(), res.AnyFailed(), faultName(plan), len(probs))
		for _, p := range probs {
			fmt.Println("   ", p.Kind, p.What)
			rec.Violation("replay/"+p.Kind, p.What, hc)
		}
	}
}

// ---- C11 --------------------------------------------------------------------------------------

type faultCase struct {
	Topology *sim.Topology  `json:"topology"`
	Setup    []sim.Op       `json:"setup"`
	Op       sim.Op         `json:"op"`
	Fault    *sim.FaultPlan `json:"fault"`
	Result   *sim.Result    `json:"result,omitempty"`
	Events   []string       `json:"events,omitempty"`
}

// scenario builds a deterministic state for an operation kind.
func c11Scenario(r *rand.Rand, kind string) (*sim.Topology, []sim.Op, sim.Op) {
	topo := sim.GenTopology(r, true)
	setup := []sim.Op{}
	ncreate := 1 + r.Intn(3)
	for i := 0; i < ncreate; i++ {
		c := sim.GenCreate(r, topo)
		c.Strategy = "AUTO"
		c.Limit = 0
		c.Labels = nil
		c.Excludes = nil
		setup = append(setup, c)
	}
	var op sim.Op
	switch kind {
	case "create":
		op = sim.GenCreate(r, topo)
	case "remove":
		op = sim.Op{Kind: "remove", Picks: []int{r.Intn(100)}}
		if r.Intn(2) == 0 {
			op.Picks = append(op.Picks, r.Intn(100))
		}
	case "dissociate":
		op = sim.Op{Kind: "dissociate", Picks: []int{r.Intn(100)}}
	case "realloc":
		res := sim.Res{Keep: r.Intn(2) == 0, Bind: r.Intn(2) == 0, Memory: int64(r.Intn(3)) << 24}
		if r.Intn(2) == 0 {
			res.CPU = float64(1+r.Intn(50)) / 100
		}
		op = sim.Op{Kind: "realloc", Picks: []int{r.Intn(100)}, Res: res}
	case "replace":
		op = sim.Op{Kind: "replace", Picks: []int{r.Intn(100)}, App: "app", Entry: "web"}
	case "add-node":
		ns := sim.NodeSpec{Name: "nx", Pod: topo.Pods[0], Cores: 2 + r.Intn(4), Memory: 2 << 30, Up: true}
		op = sim.Op{Kind: "add-node", NodeSpec: &ns}
	case "remove-node":
		// an empty extra node that can be removed
		topo.Nodes = append(topo.Nodes, sim.NodeSpec{Name: "nz", Pod: "pz", Cores: 2, Memory: 1 << 30, Up: r.Intn(2) == 0})
		topo.Pods = append(topo.Pods, "pz")
		op = sim.Op{Kind: "remove-node", Node: "nz"}
	case "set-node":
		op = sim.Op{Kind: "set-node", Node: topo.Nodes[r.Intn(len(topo.Nodes))].Name}
		switch r.Intn(3) {
		case 0:
			op.Delta, op.MemDelta = true, 1<<28
		case 1:
			op.Delta, op.CPUDelta = true, 1
		default:
			op.MemDelta = 32 << 30 // absolute
		}
		if r.Intn(2) == 0 {
			op.Labels = map[string]string{"zone": "z"}
		}
		if r.Intn(3) == 0 { // a NUMA layout comes with the change (delta or absolute), possibly for a node that had none
			op.NUMACPU, op.NUMAMem = []string{"0", "1"}, []string{"256M", "256M"}
			if op.MemDelta == 0 {
				op.MemDelta = 1 << 29
			}
		}
	}
	return topo, setup, op
}

var c11Kinds = []string{"create", "remove", "dissociate", "realloc", "replace", "add-node", "remove-node", "set-node"}

func TestC11(t *testing.T) {
	env := vkit.Load("C11")
	rec := vkit.NewRec(env)
	defer rec.Finish()
	// plugin layer: every plugin call inside the resource manager is a fault position of its own, and a second
	// plugin makes cobalt's partial commits (one plugin wrote, the other failed) and their internal rollbacks run
	w := newWorldOpts(t, env, rec, sim.BootOpts{PluginLayer: true})
	ctx := context.Background()
	rs := env.Rand("c11-slots")

	runOne := func(topo *sim.Topology, setup []sim.Op, op sim.Op, k int) (fired bool) {
		if err := w.rebuild(topo, setup); err != nil {
			rec.Inconclusive("rebuild failed: %v", err)
			return false
		}
		before := w.cl.Snapshot(ctx)
		beforeLive := map[string]string{}
		for id, n := range w.model.Live {
			beforeLive[id] = n
		}
		seq0 := w.b.Seq()
		plan := &sim.FaultPlan{Kind: "fail", Index: k}
		res := w.exec(op, plan)
		rec.Eval()
		fc := &faultCase{Topology: topo, Setup: setup, Op: op, Fault: plan, Result: res}
		if !plan.Fired() {
			return false
		}
		site := faultName(plan)
		rec.SetAdd("fault_positions/"+op.Kind, fmt.Sprintf("%s#%d", site, k))
		rec.Count("faults_fired/"+op.Kind, 1)
		if i := strings.Index(site, "@"); i >= 0 {
			if j := strings.Index(site[i:], "."); j > 0 {
				rec.Count("faults_fired_at_layer/"+site[i+1:i+j], 1)
			}
		}
		if res.TimedOut {
			rec.Skip("operation stream did not close (reported under C12)")
			return true
		}
		after := w.cl.Snapshot(ctx)
		viol := func(effect, what string) {
			fc.Events = eventsBrief(w.b.EventsSince(seq0))
			rec.Violation(fmt.Sprintf("%s/%s/%s", op.Kind, site, effect), fmt.Sprintf("%s — op: %s; reported: %s", what, op.String(), resBrief(res)), fc)
		}
		rec.Nontrivial(fmt.Sprintf("%s/%s#%d/%v", op.Kind, site, k, setup))
		rec.Sample(map[string]any{"op": op.String(), "fault": fmt.Sprintf("%s#%d", site, k), "reported": resBrief(res)})
		if !res.AnyFailed() {
			rec.Count("fault_absorbed_op_reported_success/"+op.Kind, 1)
			return true
		}
		rec.Count("ops_reporting_failure/"+op.Kind, 1)
		if res.AllFailed() {
			if d := before.Equal(after); d != "" {
				viol(effectOf(d), "the call reported failure for every part but the state changed: "+d)
				return true
			}
			if op.Kind == "replace" {
				for _, p := range res.Parts {
					if node, ok := beforeLive[p.ID]; ok {
						if c, ok := sim.GetHost(sim.Prefix + node).Get(p.ID); !ok || c.State != "running" {
							viol("old-workload-not-running", fmt.Sprintf("failed replace left old workload %.8s not running", p.ID))
						}
					}
				}
			}
			return true
		}
		// partial failure: the state must be "before + reported successes"
		wantLive := w.model.Live
		for id := range after.Workloads {
			if _, ok := wantLive[id]; !ok {
				viol("unreported-workload-recorded", fmt.Sprintf("workload %.8s is recorded but no part reported it as created", id))
				return true
			}
		}
		for id := range wantLive {
			if _, ok := after.Workloads[id]; !ok {
				viol("reported-workload-missing", fmt.Sprintf("workload %.8s should be recorded (it existed before or was reported created)", id))
				return true
			}
		}
		for id, x := range before.Workloads {
			if y, ok := after.Workloads[id]; ok && x != y {
				viol("untouched-workload-changed", fmt.Sprintf("workload %.8s changed although its part failed or it was not part of the call", id))
				return true
			}
		}
		if probs := w.cl.CheckInvariants(ctx, after); len(probs) > 0 {
			viol(probs[0].Kind, "after a partially failed call: "+probs[0].What)
		}
		return true
	}

	if env.Replay != "" {
		var fc faultCase
		if err := vkit.ReadReplay(env.Replay, &fc); err != nil {
			t.Fatal(err)
		}
		for i := 0; i < 8; i++ {
			runOne(fc.Topology, fc.Setup, fc.Op, fc.Fault.Index)
		}
		return
	}
	r := env.Rand("c11")
	scen := env.Pick(2, 24)
	kinds := []string{}
	for i, k := range c11Kinds {
		if i%env.NBatch == env.Batch {
			kinds = append(kinds, k)
		}
	}
	for _, kind := range kinds {
		for s := 0; s < scen; s++ {
			topo, setup, op := c11Scenario(r, kind)
			for i := range setup {
				withSlots(rs, &setup[i])
			}
			withSlots(rs, &op)
			for k := 1; k <= 200; k++ {
				if !runOne(topo, setup, op, k) {
					break
				}
			}
			rec.Count("scenarios/"+kind, 1)
		}
	}
	// minimum-observation thresholds are run-level (all batches merged): MIN_OBSERVED in checks_table.py, applied by the driver
}

func effectOf(diff string) string {
	switch {
	case strings.Contains(diff, "capacity"):
		return "capacity-changed"
	case strings.Contains(diff, "usage"):
		return "usage-changed"
	case strings.HasPrefix(diff, "workload") && strings.Contains(diff, "appeared"):
		return "workload-appeared"
	case strings.HasPrefix(diff, "workload") && strings.Contains(diff, "disappeared"):
		return "workload-disappeared"
	case strings.HasPrefix(diff, "workload"):
		return "workload-changed"
	case strings.HasPrefix(diff, "node resource records"):
		return "resource-record-set-changed"
	case strings.HasPrefix(diff, "node"):
		return "node-changed"
	case strings.HasPrefix(diff, "containers"):
		return "containers-changed"
	case strings.HasPrefix(diff, "processing"):
		return "processing-marker-left"
	case strings.HasPrefix(diff, "index"):
		return "index-keys-changed"
	case strings.HasPrefix(diff, "pods"):
		return "pods-changed"
	}
	return "state-changed"
}

func resBrief(r *sim.Result) string {
	if r.Err != "" {
		return "error: " + r.Err
	}
	ok, bad := 0, 0
	first := ""
	for _, p := range r.Parts {
		if p.OK {
			ok++
		} else {
			bad++
			if first == "" {
				first = p.Err
			}
		}
	}
	s := fmt.Sprintf("%d part(s) ok, %d failed", ok, bad)
	if first != "" {
		if len(first) > 160 {
			first = first[:160]
		}
		s += " (" + first + ")"
	}
	return s
}

var _ = sort.Strings
