package checks

// C35 — RPC authentication accepts exactly matching credentials.
//
// A real gRPC server (in-process bufconn listener) is built with the interceptors core.go installs
// (auth.NewAuth(cfg).UnaryInterceptor / StreamInterceptor) in front of a stub CoreRPC service; clients use
// auth.NewCredential(cfg) as per-RPC credentials, as client/client.go does. For every (server credentials, client
// credentials) pair one unary call (Info) and one streaming call (ListPodNodes) are made; a call counts as served
// when the stub handler ran.

import (
	"context"
	"fmt"
	"net"
	"strings"
	"sync/atomic"
	"testing"
	"time"

	"google.golang.org/grpc"
	"google.golang.org/grpc/credentials/insecure"
	"google.golang.org/grpc/test/bufconn"

	coreclient "github.com/projecteru2/core/client"

	"github.com/projecteru2/core/auth"
	pb "github.com/projecteru2/core/rpc/gen"
	"github.com/projecteru2/core/types"

	"verifharness/vkit"
)

type authStub struct {
	pb.UnimplementedCoreRPCServer
	served int64
}

func (s *authStub) Info(context.Context, *pb.Empty) (*pb.CoreInfo, error) {
	atomic.AddInt64(&s.served, 1)
	return &pb.CoreInfo{Version: "verif"}, nil
}

func (s *authStub) ListPodNodes(_ *pb.ListNodesOptions, srv pb.CoreRPC_ListPodNodesServer) error {
	atomic.AddInt64(&s.served, 1)
	return srv.Send(&pb.Node{Name: "n"})
}

type c35Case struct {
	ServerUser string `json:"server_user"`
	ServerPass string `json:"server_password"`
	ClientUser string `json:"client_user"`
	ClientPass string `json:"client_password"`
	NoCreds    bool   `json:"client_without_credentials,omitempty"`
	Call       string `json:"call"` // unary | stream
	// ViaClientPkg: the client is the one client.NewClient builds from the configuration (TCP loopback)
	ViaClientPkg bool `json:"via_client_package,omitempty"`
	Served     bool   `json:"served"`
	Err        string `json:"error,omitempty"`
}

func TestC35(t *testing.T) {
	env := vkit.Load("C35")
	rec := vkit.NewRec(env)
	defer rec.Finish()
	r := env.Rand("c35")

	users := []string{"admin", "Admin", "ops-1", "a.b_c", "x", "ROOT", "svc.core-2"}
	passes := []string{"pw", "PW", "p w", "", "p@ss:w0rd!", "pw2", "s3cr3t!", "s3cr3t!x", "a-very-long-password-0123456789-0123456789-0123456789", "="}

	classify := func(su, sp, cu, cp string, nocreds bool) string {
		switch {
		case nocreds:
			return "no-credentials"
		case su == cu && sp == cp:
			c := "identical-credentials"
			if su != strings.ToLower(su) {
				c += "/mixed-case-username"
			}
			if sp == "" {
				c += "/empty-password"
			}
			return c
		case strings.EqualFold(su, cu) && sp == cp:
			return "username-differs-in-case-only"
		case !strings.EqualFold(su, cu):
			return "other-username"
		case cp == "":
			return "empty-password-presented"
		case sp == "":
			return "password-presented-to-empty-configured"
		case strings.HasPrefix(cp, sp):
			return "password-extends-configured"
		case strings.HasPrefix(sp, cp):
			return "password-is-prefix-of-configured"
		case strings.EqualFold(sp, cp):
			return "password-differs-in-case-only"
		}
		return "wrong-password"
	}

	var tcpAddr string
	runServer := func(su, sp string, f func(dial func(opts ...grpc.DialOption) *grpc.ClientConn, stub *authStub)) {
		lis := bufconn.Listen(1 << 20)
		a := auth.NewAuth(types.AuthConfig{Username: su, Password: sp})
		srv := grpc.NewServer(grpc.StreamInterceptor(a.StreamInterceptor), grpc.UnaryInterceptor(a.UnaryInterceptor))
		stub := &authStub{}
		pb.RegisterCoreRPCServer(srv, stub)
		go func() { _ = srv.Serve(lis) }()
		defer srv.Stop()
		// the same server on TCP loopback, for clients built by core's own client package
		if tl, err := net.Listen("tcp", "127.0.0.1:0"); err == nil {
			tcpAddr = tl.Addr().String()
			go func() { _ = srv.Serve(tl) }()
		}
		dial := func(opts ...grpc.DialOption) *grpc.ClientConn {
			opts = append(opts, grpc.WithContextDialer(func(context.Context, string) (net.Conn, error) { return lis.Dial() }),
				grpc.WithTransportCredentials(insecure.NewCredentials()))
			conn, err := grpc.Dial("bufnet", opts...)
			if err != nil {
				t.Fatalf("dial: %v", err)
			}
			return conn
		}
		f(dial, stub)
	}

	judge := func(c *c35Case) {
		rec.Eval()
		class := classify(c.ServerUser, c.ServerPass, c.ClientUser, c.ClientPass, c.NoCreds)
		want := !c.NoCreds && strings.EqualFold(c.ServerUser, c.ClientUser) && c.ServerPass == c.ClientPass
		rec.Count("calls/"+c.Call+"/"+class, 1)
		if want {
			rec.Count("calls_expected_served", 1)
		} else {
			rec.Count("calls_expected_refused", 1)
		}
		if c.Served != want {
			verdict := "refused-but-credentials-match"
			if c.Served {
				verdict = "served-with-wrong-credentials"
			}
			rec.Violation(fmt.Sprintf("auth/%s/%s", verdict, class), fmt.Sprintf("%s call with client (%q,%q) against server (%q,%q): served=%v (%s), expected served=%v", c.Call, c.ClientUser, c.ClientPass, c.ServerUser, c.ServerPass, c.Served, c.Err, want), c)
			return
		}
		rec.Nontrivial(fmt.Sprintf("%+v", *c))
		if r.Intn(200) == 0 {
			rec.Sample(c)
		}
	}

	call := func(conn *grpc.ClientConn, stub *authStub, c *c35Case) {
		ctx, cancel := context.WithTimeout(context.Background(), 20*time.Second)
		defer cancel()
		cli := pb.NewCoreRPCClient(conn)
		before := atomic.LoadInt64(&stub.served)
		var err error
		if c.Call == "unary" {
			_, err = cli.Info(ctx, &pb.Empty{})
		} else {
			var st pb.CoreRPC_ListPodNodesClient
			if st, err = cli.ListPodNodes(ctx, &pb.ListNodesOptions{Podname: "p"}); err == nil {
				_, err = st.Recv()
			}
		}
		c.Served = atomic.LoadInt64(&stub.served) > before
		if err != nil {
			c.Err = err.Error()
		}
		if c.Served != (err == nil) {
			c.Err += " [handler ran: " + fmt.Sprint(c.Served) + "]"
		}
	}

	if env.Replay != "" {
		var c c35Case
		if err := vkit.ReadReplay(env.Replay, &c); err != nil {
			t.Fatal(err)
		}
		runServer(c.ServerUser, c.ServerPass, func(dial func(opts ...grpc.DialOption) *grpc.ClientConn, stub *authStub) {
			if c.ViaClientPkg {
				pc, err := coreclient.NewClient(context.Background(), tcpAddr, types.AuthConfig{Username: c.ClientUser, Password: c.ClientPass})
				if err != nil {
					t.Fatal(err)
				}
				defer pc.GetConn().Close()
				call(pc.GetConn(), stub, &c)
				judge(&c)
				return
			}
			opts := []grpc.DialOption{}
			if !c.NoCreds {
				opts = append(opts, grpc.WithPerRPCCredentials(auth.NewCredential(types.AuthConfig{Username: c.ClientUser, Password: c.ClientPass})))
			}
			conn := dial(opts...)
			defer conn.Close()
			call(conn, stub, &c)
			judge(&c)
		})
		return
	}

	type cfg struct{ u, p string }
	servers := []cfg{}
	for _, u := range users {
		for _, p := range passes {
			servers = append(servers, cfg{u, p})
		}
	}
	r.Shuffle(len(servers), func(i, j int) { servers[i], servers[j] = servers[j], servers[i] })
	n := env.Pick(28, len(servers))
	if n > len(servers) {
		n = len(servers)
	}
	for si := env.Batch; si < n; si += env.NBatch {
		s := servers[si]
		runServer(s.u, s.p, func(dial func(opts ...grpc.DialOption) *grpc.ClientConn, stub *authStub) {
			clients := []cfg{{s.u, s.p}, {strings.ToLower(s.u), s.p}, {strings.ToUpper(s.u), s.p}, {s.u, s.p + "x"}, {s.u, strings.ToUpper(s.p)}, {s.u, ""}, {users[r.Intn(len(users))], s.p}, {users[r.Intn(len(users))], passes[r.Intn(len(passes))]}, {s.u, passes[r.Intn(len(passes))]}}
			if len(s.p) > 1 {
				clients = append(clients, cfg{s.u, s.p[:len(s.p)-1]})
			}
			for _, c := range clients {
				conn := dial(grpc.WithPerRPCCredentials(auth.NewCredential(types.AuthConfig{Username: c.u, Password: c.p})))
				for _, kind := range []string{"unary", "stream"} {
					cs := &c35Case{ServerUser: s.u, ServerPass: s.p, ClientUser: c.u, ClientPass: c.p, Call: kind}
					call(conn, stub, cs)
					judge(cs)
				}
				conn.Close()
			}
			// "a client configured with the same credentials as the server is always accepted": the client core's own
			// client package builds from that configuration (client.NewClient: its dial options and credentials)
			for _, c := range []cfg{{s.u, s.p}, {s.u, s.p + "x"}} {
				pc, err := coreclient.NewClient(context.Background(), tcpAddr, types.AuthConfig{Username: c.u, Password: c.p})
				if err != nil {
					rec.Count("client_package_dial_errors", 1)
					continue
				}
				for _, kind := range []string{"unary", "stream"} {
					cs := &c35Case{ServerUser: s.u, ServerPass: s.p, ClientUser: c.u, ClientPass: c.p, Call: kind, ViaClientPkg: true}
					call(pc.GetConn(), stub, cs)
					judge(cs)
					rec.Count("calls_through_the_client_package", 1)
				}
				pc.GetConn().Close()
			}
			conn := dial()
			for _, kind := range []string{"unary", "stream"} {
				cs := &c35Case{ServerUser: s.u, ServerPass: s.p, NoCreds: true, Call: kind}
				call(conn, stub, cs)
				judge(cs)
			}
			conn.Close()
		})
	}
}
