package checks

// C22 — pods, nodes, node resources and workloads stay referentially consistent under concurrency.
//
// Concurrent rounds of add-pod / remove-pod / add-node / remove-node / create / remove on a tiny name universe
// run on the real Calcium (etcd store) under the serialising random scheduler (sim.Sched): every meta.KV call
// inside a store operation, every resource-manager, engine and WAL call is a step, and the PRNG decides which
// waiting goroutine performs its next step. At the quiescent point after each round the referential
// invariants are read from a raw dump and the listing APIs are called.

import (
	"context"
	"fmt"
	"math/rand"
	"sort"
	"strings"
	"sync"
	"testing"
	"time"

	"github.com/projecteru2/core/types"

	"verifharness/sim"
	"verifharness/vkit"
)

type c22Round struct {
	Ops    []sim.Op       `json:"ops"`
	Fault  *sim.FaultPlan `json:"fault,omitempty"`
	Seed   int64          `json:"sched_seed"`
	Result []string       `json:"results,omitempty"`
	Trace  []string       `json:"schedule,omitempty"`
}

type c22Case struct {
	Setup  []sim.Op   `json:"setup"`
	Rounds []c22Round `json:"rounds"`
	Failed int        `json:"failed_round"`
	State  any        `json:"state_at_violation,omitempty"`
}

// names that are prefixes of one another on purpose (n1 / n10, pa / pab): keys are built from them
var c22Nodes = []string{"n1", "n10", "n2"}
var c22Pods = []string{"pa", "pab"}

func c22NodeSpec(name, pod string) *sim.NodeSpec {
	// one of the names stands for a node that is down (no heartbeat): it is a node of its pod all the same
	return &sim.NodeSpec{Name: name, Pod: pod, Cores: 4, Memory: 8 << 30, Up: name != "n10"}
}

func c22GenOp(r *rand.Rand, focusPod, focusNode string) sim.Op {
	pod := c22Pods[r.Intn(2)]
	if r.Intn(10) < 7 {
		pod = focusPod
	}
	node := c22Nodes[r.Intn(3)]
	if r.Intn(10) < 7 {
		node = focusNode
	}
	switch k := r.Intn(20); {
	case k < 2:
		return sim.Op{Kind: "add-pod", Pod: pod}
	case k < 5:
		return sim.Op{Kind: "remove-pod", Pod: pod}
	case k < 9:
		return sim.Op{Kind: "add-node", NodeSpec: c22NodeSpec(node, pod)}
	case k < 13:
		return sim.Op{Kind: "remove-node", Node: node}
	case k < 17:
		op := sim.Op{Kind: "create", App: "app", Entry: "web", Pod: pod, Strategy: "AUTO", Count: 1 + r.Intn(2), Res: sim.Res{CPU: 0.5, Memory: 1 << 26}}
		if r.Intn(3) == 0 {
			op.Includes = []string{node}
		}
		return op
	default:
		return sim.Op{Kind: "remove", Picks: []int{r.Intn(1000), r.Intn(1000)}}
	}
}

func opMentionsUnused(op sim.Op, pod, node string) bool {
	switch op.Kind {
	case "add-pod", "remove-pod":
		return pod != "" && op.Pod == pod
	case "add-node":
		return (node != "" && op.NodeSpec.Name == node) || (pod != "" && op.NodeSpec.Pod == pod)
	case "remove-node":
		return node != "" && op.Node == node
	case "create":
		return pod == "" || op.Pod == pod
	case "remove":
		return true
	}
	return false
}

func TestC22(t *testing.T) {
	env := vkit.Load("C22")
	rec := vkit.NewRec(env)
	defer rec.Finish()
	w := newWorld(t, env, rec, false)
	if !w.cl.InstallKVShim() {
		t.Fatal("etcd store expected")
	}
	sched := sim.NewSched(w.b, "kv", "rmgr", "engine", "wal")
	defer sched.Close()
	ctx := context.Background()
	r := env.Rand("c22")
	interleavings := map[uint64]bool{}

	execOp := func(op sim.Op, label string) *sim.Result {
		if op.Kind == "add-node" {
			res := &sim.Result{Closed: true}
			c := w.cl.Ctx(label)
			sim.NewHost(op.NodeSpec.Name, op.NodeSpec.Cores, op.NodeSpec.Memory*10/8)
			node, err := w.cl.C.AddNode(c, &types.AddNodeOptions{Nodename: op.NodeSpec.Name, Endpoint: sim.Prefix + op.NodeSpec.Name, Podname: op.NodeSpec.Pod,
				Resources: sim.NodeResources(*op.NodeSpec)})
			p := sim.Part{Node: op.NodeSpec.Name, OK: err == nil}
			if err != nil {
				p.Err = err.Error()
			} else if op.NodeSpec.Up {
				_ = w.cl.Raw.SetNodeStatus(c, node, 3600) // heartbeat; refused when the node vanished meanwhile
			}
			res.Parts = append(res.Parts, p)
			return res
		}
		return w.cl.Exec(w.model, op, label)
	}

	// check evaluates the referential invariants at a quiescent point; it returns (kind, what, pod, node).
	check := func() (string, string, string, string) {
		snap := w.cl.Snapshot(ctx)
		pods := map[string]bool{}
		for _, p := range snap.Pods {
			pods[p] = true
		}
		names := []string{}
		for n := range snap.Nodes {
			names = append(names, n)
		}
		sort.Strings(names)
		for _, n := range names {
			ns := snap.Nodes[n]
			if !pods[ns.Pod] {
				return "pod-removed-with-nodes", fmt.Sprintf("node %s is recorded in pod %s, which has been removed", n, ns.Pod), ns.Pod, n
			}
		}
		for _, p := range w.cl.CheckInvariants(ctx, snap) {
			switch p.Kind {
			case "dangling-workload", "node-without-resource", "resource-without-node":
				return p.Kind, p.What, "", p.Node
			}
		}
		rec.Count("invariant_evaluations", 1)
		// the listing APIs must not fail on what is recorded
		c := w.cl.Ctx("check")
		if _, err := w.cl.C.ListWorkloads(c, &types.ListWorkloadsOptions{Appname: "app", Entrypoint: "", Nodename: "", Limit: 0}); err != nil {
			return "list-workloads-fails", "ListWorkloads(app) fails: " + err.Error(), "", ""
		}
		for _, n := range names {
			if _, err := w.cl.C.ListNodeWorkloads(c, n, nil); err != nil {
				return "list-node-workloads-fails", fmt.Sprintf("ListNodeWorkloads(%s) fails: %v", n, err), "", n
			}
		}
		for _, p := range snap.Pods {
			ch, err := w.cl.C.ListPodNodes(c, &types.ListNodesOptions{Podname: p, All: true})
			if err != nil {
				return "list-pod-nodes-fails", fmt.Sprintf("ListPodNodes(%s) fails: %v", p, err), p, ""
			}
			for range ch {
			}
		}
		rec.Count("listing_api_rounds", 1)
		return "", "", "", ""
	}

	runCase := func(cs *c22Case, replaying bool) {
		if err := w.rebuild(&sim.Topology{}, nil); err != nil {
			rec.Inconclusive("rebuild failed: %v", err)
			return
		}
		rec.Eval()
		for _, op := range cs.Setup {
			res := execOp(op, "setup")
			w.model.Apply(op, res)
		}
		w.cl.WaitQuiet(quietPatience)
		if k, what, _, _ := check(); k != "" {
			rec.Inconclusive("setup state already inconsistent: %s", what)
			return
		}
		for ri := range cs.Rounds {
			rd := &cs.Rounds[ri]
			results := make([]*sim.Result, len(rd.Ops))
			var plan *sim.FaultPlan
			if rd.Fault != nil {
				plan = &sim.FaultPlan{Kind: rd.Fault.Kind, Index: rd.Fault.Index, Match: rd.Fault.Match, Exclude: rd.Fault.Exclude}
			}
			w.b.Arm(plan)
			sched.Enable(rand.New(rand.NewSource(rd.Seed)))
			var wg sync.WaitGroup
			for i, op := range rd.Ops {
				wg.Add(1)
				go func(i int, op sim.Op) {
					defer wg.Done()
					results[i] = execOp(op, fmt.Sprintf("r%d.%d:%s", ri, i, op.Kind))
				}(i, op)
			}
			done := make(chan struct{})
			go func() { wg.Wait(); close(done) }()
			hung := false
			select {
			case <-done:
			case <-time.After(150 * time.Second):
				hung = true
			}
			// asynchronous follow-ups (remap) keep being scheduled until the cluster is quiet
			quiet := w.cl.WaitQuiet(30 * time.Second)
			trace := sched.Disable()
			if !quiet {
				w.cl.WaitQuiet(20 * time.Second)
			}
			w.b.Disarm()
			if hung {
				rec.Inconclusive("round %d did not return within 150 s (ops %v)", ri, rd.Ops)
				return
			}
			rd.Result = nil
			for i, op := range rd.Ops {
				w.model.Apply(op, results[i])
				s := "ok"
				if results[i].AnyFailed() {
					s = "failed: " + results[i].Err
					for _, p := range results[i].Parts {
						if !p.OK {
							s += " " + p.Err
						}
					}
				}
				rd.Result = append(rd.Result, op.Kind+" -> "+s)
				rec.Count("ops/"+op.Kind, 1)
				if !results[i].AnyFailed() {
					rec.Count("ops_succeeded/"+op.Kind, 1)
				}
			}
			rec.Count("rounds", 1)
			rec.Count("sched_steps", len(trace))
			// how interleaved was the round? a foreign step strictly inside an operation's [first,last] step window
			first, last := map[string]int{}, map[string]int{}
			tags := make([]string, len(trace))
			for i, s := range trace {
				tag := s[:strings.IndexByte(s, ' ')]
				tags[i] = tag
				if _, ok := first[tag]; !ok {
					first[tag] = i
				}
				last[tag] = i
			}
			overl := 0
			for tag := range first {
				if tag == "" {
					continue
				}
				for i := first[tag] + 1; i < last[tag]; i++ {
					if tags[i] != tag && tags[i] != "" {
						overl++
						break
					}
				}
			}
			rec.Count("ops_with_foreign_steps_inside_their_window", overl)
			if len(rd.Ops) > 1 {
				rec.Count("concurrent_rounds", 1)
			}
			proj := []string{}
			for _, s := range trace {
				// project away ids: keep tag's op index+kind and the call name
				if i := strings.IndexByte(s, '('); i > 0 {
					s = s[:i]
				}
				proj = append(proj, s)
			}
			h := vkit.Hash64(strings.Join(proj, "|"))
			if !interleavings[h] {
				interleavings[h] = true
				rec.SetAdd("interleavings", fmt.Sprintf("%016x", h))
			}
			if plan.Fired() {
				rec.Count("faults_fired", 1)
				rec.SetAdd("fault_sites", faultName(plan))
			}
			kind, what, pod, node := check()
			if kind == "" {
				continue
			}
			// finding key: the problem kind plus the operations of this round that explain it (with their outcome);
			// operations that merely ran in the same round are not part of the key
			expl := []string{}
			for i, op := range rd.Ops {
				ok := !results[i].AnyFailed()
				st := "(failed)"
				if ok {
					st = "(ok)"
				}
				switch kind {
				case "pod-removed-with-nodes":
					if (op.Kind == "add-node" && op.NodeSpec.Name == node && op.NodeSpec.Pod == pod && ok) || (op.Kind == "remove-pod" && op.Pod == pod && ok) {
						expl = append(expl, op.Kind+st)
					}
				case "dangling-workload", "list-workloads-fails", "list-node-workloads-fails":
					if op.Kind == "create" {
						for _, p := range results[i].Parts {
							if p.OK && (node == "" || p.Node == node) {
								expl = append(expl, "create(ok)")
								break
							}
						}
					}
					if op.Kind == "remove-node" && (node == "" || op.Node == node) && ok {
						expl = append(expl, op.Kind+st)
					}
				default: // node-without-resource, resource-without-node: everything that names the node
					if (op.Kind == "add-node" && op.NodeSpec.Name == node) || (op.Kind == "remove-node" && op.Node == node) {
						expl = append(expl, op.Kind+st)
					}
				}
			}
			sort.Strings(expl)
			// the key names the colliding call sites, not how many operations of a kind took part (two creates that both
			// put a workload on the node another operation removed are the same collision as one)
			uniq := expl[:0]
			for i, e := range expl {
				if i == 0 || e != expl[i-1] {
					uniq = append(uniq, e)
				}
			}
			expl = uniq
			if len(expl) < 2 && !plan.Fired() {
				// not explained by two colliding operations of this round: never matches a known finding
				for _, op := range rd.Ops {
					expl = append(expl, "?"+op.Kind)
				}
			}
			key := kind + "/" + strings.Join(expl, "||")
			if plan.Fired() {
				key += "/" + faultName(plan)
			}
			rd.Trace = trace
			cs.Failed = ri
			cs.Rounds = cs.Rounds[:ri+1]
			cs.State = w.cl.Snapshot(ctx)
			rec.Violation(key, fmt.Sprintf("%s — after concurrent round %v (results %v)", what, rd.Ops, rd.Result), cs)
			return
		}
		rec.Nontrivial(fmt.Sprintf("%+v", cs.Rounds))
		if len(cs.Rounds) > 0 {
			rec.Sample(map[string]any{"last_round": cs.Rounds[len(cs.Rounds)-1].Ops, "results": cs.Rounds[len(cs.Rounds)-1].Result})
		}
	}

	if env.Replay != "" {
		var cs c22Case
		if err := vkit.ReadReplay(env.Replay, &cs); err != nil {
			t.Fatal(err)
		}
		// schedule-dependent witness: same workload, same scheduler seeds, several attempts
		n0 := rec.NViolations()
		for a := 0; a < 20 && rec.NViolations() == n0; a++ {
			c := cs
			c.Rounds = append([]c22Round(nil), cs.Rounds...)
			for i := range c.Rounds {
				c.Rounds[i].Seed += int64(a)
			}
			runCase(&c, true)
			rec.Count("replay_attempts", 1)
		}
		return
	}

	n := env.Pick(96, 1200) / env.NBatch
	for i := 0; i < n; i++ {
		cs := &c22Case{}
		cs.Setup = append(cs.Setup, sim.Op{Kind: "add-pod", Pod: "pa"})
		have := []string{"pa"}
		if r.Intn(2) == 0 {
			cs.Setup = append(cs.Setup, sim.Op{Kind: "add-pod", Pod: "pab"})
			have = append(have, "pab")
		}
		for _, nn := range c22Nodes {
			if r.Intn(10) < 6 {
				cs.Setup = append(cs.Setup, sim.Op{Kind: "add-node", NodeSpec: c22NodeSpec(nn, have[r.Intn(len(have))])})
			}
		}
		for k := r.Intn(3); k > 0; k-- {
			cs.Setup = append(cs.Setup, sim.Op{Kind: "create", App: "app", Entry: "web", Pod: have[r.Intn(len(have))], Strategy: "AUTO", Count: 1, Res: sim.Res{CPU: 0.5, Memory: 1 << 26}})
		}
		rounds := 5 + r.Intn(4)
		for k := 0; k < rounds; k++ {
			rd := c22Round{Seed: r.Int63()}
			fp, fn := c22Pods[r.Intn(2)], c22Nodes[r.Intn(3)]
			nops := 2 + r.Intn(3)
			if r.Intn(4) == 0 {
				nops = 1 + r.Intn(2)
				rd.Fault = &sim.FaultPlan{Kind: "fail", Index: 1 + r.Intn(14)}
			}
			for j := 0; j < nops; j++ {
				rd.Ops = append(rd.Ops, c22GenOp(r, fp, fn))
			}
			if rd.Fault != nil {
				// single-failure model: the steps that compensate the operations of this round (and may run after a
				// failure that is NOT the injected one, e.g. add-node into a pod that does not exist) are never failed
				for _, op := range rd.Ops {
					switch op.Kind {
					case "add-node":
						rd.Fault.Exclude = append(rd.Fault.Exclude, "rmgr.RemoveNode")
					case "remove-node":
						rd.Fault.Exclude = append(rd.Fault.Exclude, "store.AddNode", "store.UpdateNodes")
					case "create":
						rd.Fault.Exclude = append(rd.Fault.Exclude, "rmgr.RollbackAlloc", "store.DeleteProcessing", "engine.VirtualizationRemove", "store.RemoveWorkload", "wal.Commit")
					}
				}
			}
			cs.Rounds = append(cs.Rounds, rd)
		}
		runCase(cs, false)
	}
	rec.Count("max:goroutines_waiting_at_once", sched.MaxWait)
	rec.Count("sched_safety_timeouts", sched.Timeouts)
}
