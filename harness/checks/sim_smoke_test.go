package checks

import (
	"context"
	"fmt"
	"testing"
	"time"

	resourcetypes "github.com/projecteru2/core/resource/types"
	"github.com/projecteru2/core/types"

	"verifharness/sim"
)

func TestSimSmoke(t *testing.T) {
	b := sim.NewBoundary()
	cl := sim.Boot(t, b, sim.BootOpts{}, nil)
	ctx := cl.Ctx("setup")
	if _, err := cl.C.AddPod(ctx, "p1", ""); err != nil {
		t.Fatal(err)
	}
	for i := 0; i < 2; i++ {
		if _, err := cl.AddNode(ctx, sim.NodeSpec{Name: fmt.Sprintf("n%d", i), Pod: "p1", Cores: 4, Memory: 4 << 30, Up: true}); err != nil {
			t.Fatal(err)
		}
	}
	t0 := time.Now()
	opts := &types.DeployOptions{Name: "app", Entrypoint: &types.Entrypoint{Name: "web"}, Podname: "p1", Image: "img", Count: 3, DeployStrategy: "AUTO",
		NodeFilter: &types.NodeFilter{Podname: "p1"}, Resources: resourcetypes.Resources{"cpumem": {"cpu-bind": true, "cpu-request": 1.5, "memory-request": 1 << 20}}}
	ch, err := cl.C.CreateWorkload(cl.Ctx("create"), opts)
	if err != nil {
		t.Fatal(err)
	}
	for m := range ch {
		fmt.Printf("msg: node=%s id=%.8s err=%v\n", m.Nodename, m.WorkloadID, m.Error)
	}
	fmt.Println("create took", time.Since(t0), "quiet:", cl.WaitQuiet(5*time.Second))
	s := cl.Snapshot(context.Background())
	fmt.Println("workloads", len(s.Workloads), "containers", s.Containers, "problems", s.Problems)
	for _, p := range cl.CheckInvariants(context.Background(), s) {
		fmt.Println("PROBLEM", p)
	}
	for _, e := range b.Events() {
		if !e.Ret {
			fmt.Printf("%3d %s %s.%s(%s)\n", e.Seq, e.Inst, e.Layer, e.Op, e.Arg)
		}
	}
	ev, ed := cl.Locks.Snapshot()
	fmt.Println(len(ev), ed)
}
