package checks

// C36 — client watch streams retry transparently.
//
// A real gRPC server (bufconn) with a scripted CoreRPC stub: every invocation of a streaming method consumes the
// next segment of the case's script — send k messages (unique ids), then break with an error or with a clean end
// (EOF), or stay open. The client connection carries the real interceptor.NewStreamRetry. The server logs every
// request it sees (with the attempt number and the request content), the client logs every message it gets.

import (
	"context"
	"fmt"
	"io"
	"net"
	"strings"
	"sync"
	"testing"
	"time"

	"google.golang.org/grpc"
	"google.golang.org/grpc/codes"
	"google.golang.org/grpc/credentials/insecure"
	"google.golang.org/grpc/metadata"
	"google.golang.org/grpc/status"
	"google.golang.org/grpc/test/bufconn"

	coreclient "github.com/projecteru2/core/client"
	coretypes "github.com/projecteru2/core/types"

	"github.com/projecteru2/core/client/interceptor"
	pb "github.com/projecteru2/core/rpc/gen"

	"verifharness/vkit"
)

type c36Seg struct {
	Msgs  int    `json:"messages"`
	Break string `json:"break"` // error | eof | canceled | internal | hold (stay open until the client goes away)
}

type c36Case struct {
	ID       string   `json:"id"`
	Method   string   `json:"method"` // WorkloadStatusStream | WatchServiceStatus | ListPodNodes | GetPod (unary)
	Max      int      `json:"max_retries"`
	Script   []c36Seg `json:"script"`
	CancelAt int      `json:"cancel_after_messages"` // -1: never; otherwise the caller cancels after that many messages
	// ViaClientPkg: the connection is the one core's own client package dials (client.NewClient over TCP loopback:
	// its dial options, service config and interceptors, retry budget Max = 0) instead of the harness's own dial
	ViaClientPkg bool `json:"via_client_package,omitempty"`
	// observed
	Got      []string `json:"client_received,omitempty"`
	Requests []string `json:"server_saw_requests,omitempty"`
	FinalErr string   `json:"client_final_error,omitempty"`
}

type c36State struct {
	mu       sync.Mutex
	c        *c36Case
	attempts int
	requests []string
	sent     []string
	lastReq  time.Time
}

type c36Server struct {
	pb.UnimplementedCoreRPCServer
	mu    sync.Mutex
	cases map[string]*c36State
}

func (s *c36Server) state(ctx context.Context) *c36State {
	md, _ := metadata.FromIncomingContext(ctx)
	ids := md.Get("verif-case")
	if len(ids) == 0 {
		return nil
	}
	s.mu.Lock()
	defer s.mu.Unlock()
	return s.cases[ids[0]]
}

// serve plays the next script segment; send delivers message number i of this case.
func (s *c36Server) serve(ctx context.Context, req string, send func(id string) error) error {
	st := s.state(ctx)
	if st == nil {
		return status.Error(codes.InvalidArgument, "unknown case")
	}
	st.mu.Lock()
	k := st.attempts
	st.attempts++
	st.requests = append(st.requests, req)
	st.lastReq = time.Now()
	seg := c36Seg{Break: "error"}
	if k < len(st.c.Script) {
		seg = st.c.Script[k]
	}
	st.mu.Unlock()
	for i := 0; i < seg.Msgs; i++ {
		id := fmt.Sprintf("%s/a%d/m%d", st.c.ID, k, i)
		if err := send(id); err != nil {
			return err
		}
		st.mu.Lock()
		st.sent = append(st.sent, id)
		st.mu.Unlock()
	}
	switch seg.Break {
	case "eof":
		return nil
	case "canceled":
		// the SERVER side ends the stream with code Canceled (a proxy reset, a cancelled server-side context); the
		// caller did not cancel anything
		return status.Error(codes.Canceled, "verif: scripted break (server side cancelled)")
	case "internal":
		return status.Error(codes.Internal, "verif: scripted break")
	case "hold":
		<-ctx.Done()
		return ctx.Err()
	}
	return status.Error(codes.Unavailable, "verif: scripted break")
}

func (s *c36Server) WorkloadStatusStream(o *pb.WorkloadStatusStreamOptions, srv pb.CoreRPC_WorkloadStatusStreamServer) error {
	req := fmt.Sprintf("app=%s entry=%s node=%s labels=%v", o.Appname, o.Entrypoint, o.Nodename, o.Labels)
	return s.serve(srv.Context(), req, func(id string) error { return srv.Send(&pb.WorkloadStatusStreamMessage{Id: id}) })
}

func (s *c36Server) WatchServiceStatus(_ *pb.Empty, srv pb.CoreRPC_WatchServiceStatusServer) error {
	return s.serve(srv.Context(), "empty", func(id string) error { return srv.Send(&pb.ServiceStatus{Addresses: []string{id}}) })
}

func (s *c36Server) ListPodNodes(o *pb.ListNodesOptions, srv pb.CoreRPC_ListPodNodesServer) error {
	return s.serve(srv.Context(), "pod="+o.Podname, func(id string) error { return srv.Send(&pb.Node{Name: id}) })
}

// GetPod is the unary call: the k-th invocation answers with one pod when its script segment has messages, otherwise
// with the segment's break.
func (s *c36Server) GetPod(ctx context.Context, o *pb.GetPodOptions) (*pb.Pod, error) {
	var first string
	err := s.serve(ctx, "pod="+o.Name, func(id string) error {
		if first == "" {
			first = id
		}
		return nil
	})
	if first != "" {
		return &pb.Pod{Name: first}, nil
	}
	if err == nil {
		err = status.Error(codes.NotFound, "verif: scripted empty answer")
	}
	return nil, err
}

func TestC36(t *testing.T) {
	env := vkit.Load("C36")
	rec := vkit.NewRec(env)
	defer rec.Finish()
	r := env.Rand("c36")

	lis := bufconn.Listen(1 << 20)
	stub := &c36Server{cases: map[string]*c36State{}}
	srv := grpc.NewServer()
	pb.RegisterCoreRPCServer(srv, stub)
	go func() { _ = srv.Serve(lis) }()
	defer srv.Stop()
	dial := func(max int) *grpc.ClientConn {
		conn, err := grpc.Dial("bufnet", grpc.WithContextDialer(func(context.Context, string) (net.Conn, error) { return lis.Dial() }),
			grpc.WithTransportCredentials(insecure.NewCredentials()),
			grpc.WithStreamInterceptor(interceptor.NewStreamRetry(interceptor.RetryOptions{Max: max})))
		if err != nil {
			t.Fatalf("dial: %v", err)
		}
		return conn
	}
	conns := map[int]*grpc.ClientConn{}
	for _, m := range []int{0, 1, 3} {
		conns[m] = dial(m)
		defer conns[m].Close()
	}
	// the same server on TCP loopback for the connection core's client package dials itself
	tl, err := net.Listen("tcp", "127.0.0.1:0")
	if err != nil {
		t.Fatalf("listen: %v", err)
	}
	go func() { _ = srv.Serve(tl) }()
	pc, err := coreclient.NewClient(context.Background(), tl.Addr().String(), coretypes.AuthConfig{})
	if err != nil {
		t.Fatalf("client.NewClient: %v", err)
	}
	defer pc.GetConn().Close()

	run := func(c *c36Case) {
		st := &c36State{c: c}
		stub.mu.Lock()
		stub.cases[c.ID] = st
		stub.mu.Unlock()
		ctx, cancel := context.WithCancel(metadata.AppendToOutgoingContext(context.Background(), "verif-case", c.ID))
		defer cancel()
		cli := pb.NewCoreRPCClient(conns[c.Max])
		if c.ViaClientPkg {
			cli = pc.GetRPCClient()
			rec.Count("calls_through_the_client_package/"+c.Method, 1)
		}
		wantReq := ""
		var recv func() (string, error)
		var err error
		switch c.Method {
		case "WorkloadStatusStream":
			o := &pb.WorkloadStatusStreamOptions{Appname: "app-" + c.ID, Entrypoint: "web", Nodename: "n1", Labels: map[string]string{"k": c.ID}}
			wantReq = fmt.Sprintf("app=%s entry=%s node=%s labels=%v", o.Appname, o.Entrypoint, o.Nodename, o.Labels)
			var s pb.CoreRPC_WorkloadStatusStreamClient
			if s, err = cli.WorkloadStatusStream(ctx, o); err == nil {
				recv = func() (string, error) { m, e := s.Recv(); return m.GetId(), e }
			}
		case "WatchServiceStatus":
			wantReq = "empty"
			var s pb.CoreRPC_WatchServiceStatusClient
			if s, err = cli.WatchServiceStatus(ctx, &pb.Empty{}); err == nil {
				recv = func() (string, error) {
					m, e := s.Recv()
					if e != nil {
						return "", e
					}
					return strings.Join(m.Addresses, ","), nil
				}
			}
		case "GetPod":
			wantReq = "pod=p-" + c.ID
			done := false
			recv = func() (string, error) {
				if done {
					return "", io.EOF
				}
				done = true
				p, e := cli.GetPod(ctx, &pb.GetPodOptions{Name: "p-" + c.ID})
				return p.GetName(), e
			}
		default:
			wantReq = "pod=p-" + c.ID
			var s pb.CoreRPC_ListPodNodesClient
			if s, err = cli.ListPodNodes(ctx, &pb.ListNodesOptions{Podname: "p-" + c.ID}); err == nil {
				recv = func() (string, error) { m, e := s.Recv(); return m.GetName(), e }
			}
		}
		rec.Eval()
		var cancelledAt time.Time
		reqAtCancel := -1
		if err != nil {
			c.FinalErr = "open: " + err.Error()
		} else {
			watchdog := time.AfterFunc(90*time.Second, cancel)
			for {
				if c.CancelAt >= 0 && len(c.Got) == c.CancelAt && cancelledAt.IsZero() {
					st.mu.Lock()
					reqAtCancel = len(st.requests)
					st.mu.Unlock()
					cancelledAt = time.Now()
					cancel()
				}
				id, e := recv()
				if e != nil {
					c.FinalErr = e.Error()
					break
				}
				c.Got = append(c.Got, id)
				if len(c.Got) > 10000 {
					break
				}
			}
			watchdog.Stop()
		}
		if !cancelledAt.IsZero() {
			time.Sleep(1200 * time.Millisecond) // a retry that ignored the cancellation would arrive within its first backoff (<= 750 ms)
		}
		st.mu.Lock()
		c.Requests = append([]string(nil), st.requests...)
		sent := append([]string(nil), st.sent...)
		attempts := st.attempts
		st.mu.Unlock()
		viol := func(key, what string) {
			rec.Violation(fmt.Sprintf("retry/%s/%s", key, c.Method), what+fmt.Sprintf(" — %s, Max=%d, script %+v, cancel after %d", c.Method, c.Max, c.Script, c.CancelAt), c)
		}
		rec.Count("streams/"+c.Method, 1)
		rec.Count("reopen_attempts_seen", attempts-1)
		allow := c.Method != "ListPodNodes" && c.Method != "GetPod"
		// expected behaviour, computed from the script
		expGot := []string{}
		expAttempts := 0
		gaveUp := false
		if !allow {
			expAttempts = 1
			if len(c.Script) > 0 {
				for i := 0; i < c.Script[0].Msgs && (c.Method != "GetPod" || i == 0); i++ {
					expGot = append(expGot, fmt.Sprintf("%s/a0/m%d", c.ID, i))
				}
			}
		} else {
			k := 0
			for !gaveUp {
				seg := c36Seg{Break: "error"}
				if k < len(c.Script) {
					seg = c.Script[k]
				}
				expAttempts = k + 1
				stop := false
				for i := 0; i < seg.Msgs; i++ {
					if c.CancelAt >= 0 && len(expGot) == c.CancelAt {
						stop = true
						break
					}
					expGot = append(expGot, fmt.Sprintf("%s/a%d/m%d", c.ID, k, i))
				}
				if stop || (c.CancelAt >= 0 && len(expGot) == c.CancelAt) || seg.Break == "hold" {
					break
				}
				// the stream broke after seg.Msgs messages: up to Max+1 reopen attempts, each must deliver a message to count as success
				ok := false
				for j := 1; j <= c.Max+1; j++ {
					k++
					nseg := c36Seg{Break: "error"}
					if k < len(c.Script) {
						nseg = c.Script[k]
					}
					expAttempts = k + 1
					if nseg.Msgs > 0 || nseg.Break == "hold" {
						ok = true
						break
					}
				}
				if !ok {
					gaveUp = true
				}
			}
		}
		// (1) original request re-sent verbatim on every attempt
		for i, q := range c.Requests {
			if q != wantReq {
				viol("request-not-resent-verbatim", fmt.Sprintf("attempt %d reached the server with request [%s], the caller's request is [%s]", i, q, wantReq))
				return
			}
		}
		// (2) never retried after the caller cancelled
		if reqAtCancel >= 0 && len(c.Requests) > reqAtCancel {
			viol("retried-after-cancel", fmt.Sprintf("%d new request(s) reached the server after the caller had cancelled the stream", len(c.Requests)-reqAtCancel))
			return
		}
		// (3) not a watch stream: never reopened
		if !allow && attempts > 1 {
			viol("non-watch-stream-retried", fmt.Sprintf("the server saw %d requests for a method that is not a watch stream", attempts))
			return
		}
		// (4) messages: exactly the expected ones, in order, no loss, no duplicate
		if reqAtCancel >= 0 {
			// cancelled by the caller: what arrived must be a gap-free prefix of what the server sent, and at least the
			// messages the caller waited for (messages in flight at the cancellation may or may not arrive)
			if len(c.Got) < c.CancelAt || len(c.Got) > len(sent) || strings.Join(c.Got, " ") != strings.Join(sent[:len(c.Got)], " ") {
				viol("messages-lost-or-duplicated", fmt.Sprintf("client received %v before/at its cancellation, the server had sent %v", c.Got, sent))
				return
			}
		} else {
			if strings.Join(c.Got, " ") != strings.Join(expGot, " ") {
				key := "messages-lost-or-duplicated"
				if len(c.Got) < len(expGot) && strings.HasPrefix(strings.Join(expGot, " "), strings.Join(c.Got, " ")) {
					key = "gave-up-while-budget-remained"
				}
				viol(key, fmt.Sprintf("client received %v, expected %v (server sent %v; final error %s)", c.Got, expGot, sent, c.FinalErr))
				return
			}
		}
		// (5) attempts: no more than the budget allows, no fewer than needed
		if reqAtCancel < 0 {
			if attempts > expAttempts {
				viol("more-attempts-than-budget", fmt.Sprintf("the server saw %d requests, the script and a budget of Max+1=%d reopen attempts per break allow %d", attempts, c.Max+1, expAttempts))
				return
			}
			if attempts < expAttempts {
				viol("gave-up-while-budget-remained", fmt.Sprintf("the server saw only %d requests, %d were due before giving up", attempts, expAttempts))
				return
			}
		}
		if len(c.Requests) > 1 {
			rec.Count("streams_reopened", 1)
		}
		if gaveUp {
			rec.Count("budget_exhausted_cases", 1)
		}
		if reqAtCancel >= 0 {
			rec.Count("cancelled_cases", 1)
		}
		if c.FinalErr == io.EOF.Error() {
			rec.Count("final_eof", 1)
		}
		rec.Nontrivial(fmt.Sprintf("%s %d %+v %d", c.Method, c.Max, c.Script, c.CancelAt))
		if r.Intn(10) == 0 {
			rec.Sample(map[string]any{"method": c.Method, "max": c.Max, "script": c.Script, "cancel_after": c.CancelAt, "received": len(c.Got), "requests_seen": len(c.Requests), "final_error": c.FinalErr})
		}
	}

	if env.Replay != "" {
		var c c36Case
		if err := vkit.ReadReplay(env.Replay, &c); err != nil {
			t.Fatal(err)
		}
		c.Got, c.Requests, c.FinalErr = nil, nil, ""
		c.ID += "r"
		run(&c)
		return
	}
	n := env.Pick(120, 1200) / env.NBatch
	cases := []*c36Case{}
	for i := 0; i < n; i++ {
		c := &c36Case{ID: fmt.Sprintf("c%d-%d", env.Batch, i), Max: []int{0, 1, 3}[r.Intn(3)], CancelAt: -1,
			Method: []string{"WorkloadStatusStream", "WorkloadStatusStream", "WatchServiceStatus", "WatchServiceStatus", "ListPodNodes"}[r.Intn(5)]}
		segs := 1 + r.Intn(4)
		for k := 0; k < segs; k++ {
			sg := c36Seg{Msgs: r.Intn(4), Break: []string{"error", "error", "eof", "canceled", "internal"}[r.Intn(5)]}
			if k > 0 && r.Intn(3) == 0 {
				sg.Msgs = 0 // a reopen attempt that fails at once
			}
			c.Script = append(c.Script, sg)
		}
		// keep a case short: the number of consecutive failing reopen attempts after the script ends is Max+1
		if r.Intn(4) == 0 && c.Method != "ListPodNodes" {
			// cancellation while the stream is held open after some messages
			k := r.Intn(len(c.Script))
			c.Script = c.Script[:k+1]
			c.Script[k] = c36Seg{Msgs: 1 + r.Intn(3), Break: "hold"}
			// every segment before the held one must hand over to the next within the budget, otherwise the case ends earlier
			for j := 0; j < k; j++ {
				if c.Script[j].Msgs == 0 && j > 0 {
					c.Script[j].Msgs = 1
				}
			}
			total := 0
			for _, sg := range c.Script {
				total += sg.Msgs
			}
			c.CancelAt = total
		}
		if i%4 == 3 { // through core's own client package (budget 0); a third of them unary
			c.ViaClientPkg, c.Max = true, 0
			if i%12 == 3 {
				c.Method, c.CancelAt = "GetPod", -1
				for k := range c.Script {
					if c.Script[k].Break == "hold" {
						c.Script[k].Break = "error"
					}
				}
			}
		}
		cases = append(cases, c)
	}
	var wg sync.WaitGroup
	sem := make(chan struct{}, 24)
	for _, c := range cases {
		wg.Add(1)
		sem <- struct{}{}
		go func(c *c36Case) {
			defer wg.Done()
			defer func() { <-sem }()
			run(c)
		}(c)
	}
	wg.Wait()
}
