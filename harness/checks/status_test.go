package checks

// C25 — status reports are bound to live entities and expire (etcd and redis stores).
//
// Histories of node / workload status reports (same or different values, TTL changes, TTL zero, negative TTL),
// entity removal / re-creation and time passing are driven through the real stores. A small model keeps, per
// entity, whether it exists and until when its latest status must stay visible.
//   redis: miniredis' virtual clock is exact — "time passes" is FastForward, visibility is asserted on both sides
//          of the deadline.
//   etcd:  logical time — after every accepted report with a TTL the status key must be attached to a lease whose
//          granted TTL is the reported one and which has just been renewed (remaining >= ttl-2); after a TTL-zero
//          report the key must have NO lease; "time passes" revokes the leases of the statuses whose model deadline
//          has passed. A few real-time cases check that a re-report of the SAME value really renews the lease.

import (
	"context"
	"fmt"
	"math/rand"
	"sort"
	"sync"
	"testing"
	"time"

	clientv3 "go.etcd.io/etcd/client/v3"

	enginefactory "github.com/projecteru2/core/engine/factory"
	"github.com/projecteru2/core/store"
	"github.com/projecteru2/core/types"
	"github.com/projecteru2/core/utils"

	"verifharness/sim"
	"verifharness/vkit"
)

type c25Op struct {
	Kind    string `json:"kind"` // report-node | report-workload | remove-node | add-node | remove-workload | add-workload | tick
	Entity  string `json:"entity,omitempty"`
	TTL     int64  `json:"ttl,omitempty"`
	Running bool   `json:"running,omitempty"`
	Healthy bool   `json:"healthy,omitempty"`
	Delta   int64  `json:"delta_s,omitempty"`
}

type c25Case struct {
	Backend string   `json:"backend"`
	Ops     []c25Op  `json:"ops"`
	Failed  int      `json:"failed_at_op"`
	Log     []string `json:"log,omitempty"`
}

type c25Status struct {
	known   bool
	ttl     int64
	at      int64 // model clock (s) of the latest accepted report
	running bool
	healthy bool
}

var c25EngineOnce sync.Once

func c25Workload(id, node string) *types.Workload {
	return &types.Workload{ID: id, Name: utils.MakeWorkloadName("app", "web", id[:6]), Podname: "p", Nodename: node}
}

func TestC25(t *testing.T) {
	env := vkit.Load("C25")
	rec := vkit.NewRec(env)
	defer rec.Finish()
	s := newStores(t)
	ctx := context.Background()
	c25EngineOnce.Do(func() {
		sim.RegisterEngine(sim.NewBoundary())
		enginefactory.InitEngineCache(ctx, s.cfg, nil)
	})
	r := env.Rand("c25")
	nodes := []string{"n1", "n10", "n2"} // n1 is a prefix of n10: one node's status key must not cover the other's
	// the workloads live on a third node that is never removed (a workload on a removed node is C22's subject)
	wls := map[string]string{"w1aaaaaaaaaaaaaaaaaaaaaaaaaaaaaaaaaaaaaaaaaaaaaaaaaaaaaaaaaaaaaaaa": "nw", "w2bbbbbbbbbbbbbbbbbbbbbbbbbbbbbbbbbbbbbbbbbbbbbbbbbbbbbbbbbbbbbbbb": "nw", "w3cccccccccccccccccccccccccccccccccccccccccccccccccccccccccccccc": "nw"}
	wids := []string{}
	for id := range wls {
		wids = append(wids, id)
	}
	sort.Strings(wids)
	for _, n := range append([]string{"nw"}, nodes...) {
		sim.NewHost(n, 4, 8<<30)
	}

	nodeKey := func(n string) string { return "/status:node/" + n }
	wlKey := func(id string) string { return "/status/app/web/" + wls[id] + "/" + id }

	run := func(cs *c25Case) {
		s.wipe()
		rec.Eval()
		st := s.backend(cs.Backend)
		b := cs.Backend
		logf := func(f string, a ...any) {
			if len(cs.Log) < 300 {
				cs.Log = append(cs.Log, fmt.Sprintf(f, a...))
			}
		}
		failed := false
		viol := func(i int, key, what string) {
			if failed {
				return
			}
			failed = true
			cs.Failed = i
			cs.Ops = cs.Ops[:i+1]
			rec.Violation(b+"/"+key, what+fmt.Sprintf(" — after op %d %+v", i, cs.Ops[i]), cs)
		}
		if _, err := st.AddPod(ctx, "p", ""); err != nil {
			rec.Inconclusive("AddPod: %v", err)
			return
		}
		exists := map[string]bool{}
		status := map[string]*c25Status{}
		var clock int64
		addNode := func(n string) error {
			_, err := st.AddNode(ctx, &types.AddNodeOptions{Nodename: n, Endpoint: sim.Prefix + n, Podname: "p"})
			return err
		}
		for _, n := range append([]string{"nw"}, nodes...) {
			if err := addNode(n); err != nil {
				rec.Inconclusive("AddNode: %v", err)
				return
			}
			exists[n] = true
		}
		for _, id := range wids {
			if err := st.AddWorkload(ctx, c25Workload(id, wls[id]), nil); err != nil {
				rec.Inconclusive("AddWorkload: %v", err)
				return
			}
			exists[id] = true
		}
		isNode := func(e string) bool { return e == "n1" || e == "n10" || e == "n2" }
		key := func(e string) string {
			if isNode(e) {
				return nodeKey(e)
			}
			return wlKey(e)
		}
		// visible reports (visible, running, healthy) through the store API
		visible := func(e string) (bool, bool, bool) {
			if isNode(e) {
				ns, err := st.GetNodeStatus(ctx, e)
				return err == nil && ns != nil, err == nil && ns != nil && ns.Alive, true
			}
			sm, err := st.GetWorkloadStatus(ctx, e)
			if err != nil || sm == nil {
				return false, false, false
			}
			return true, sm.Running, sm.Healthy
		}
		// etcd: lease facts of a status key
		lease := func(e string) (found bool, id clientv3.LeaseID, granted, remaining int64) {
			resp, err := s.cli.Get(ctx, key(e))
			if err != nil || len(resp.Kvs) == 0 {
				return false, 0, 0, 0
			}
			id = clientv3.LeaseID(resp.Kvs[0].Lease)
			if id == 0 {
				return true, 0, 0, 0
			}
			tl, err := s.cli.TimeToLive(ctx, id)
			if err != nil {
				return true, id, -1, -1
			}
			return true, id, tl.GrantedTTL, tl.TTL
		}
		checkAll := func(i int) {
			for e, stt := range status {
				if failed || !exists[e] || !stt.known {
					continue
				}
				kind := "workload"
				if isNode(e) {
					kind = "node"
				}
				vis, run, hl := visible(e)
				deadline := stt.at + stt.ttl
				switch {
				case stt.ttl == 0 || clock < deadline:
					rec.Count("visibility_checks/"+b, 1)
					if !vis {
						viol(i, kind+"/status-gone-before-its-ttl", fmt.Sprintf("status of %s %s (reported at t=%ds with ttl %d) is invisible at t=%ds", kind, e, stt.at, stt.ttl, clock))
					} else if !isNode(e) && (run != stt.running || hl != stt.healthy) {
						viol(i, kind+"/status-value-stale", fmt.Sprintf("status of %s shows running=%v healthy=%v, latest report was running=%v healthy=%v", e, run, hl, stt.running, stt.healthy))
					}
				case clock > deadline:
					rec.Count("expiry_checks/"+b, 1)
					if vis {
						viol(i, kind+"/status-outlives-its-ttl", fmt.Sprintf("status of %s %s (reported at t=%ds with ttl %d) is still visible at t=%ds", kind, e, stt.at, stt.ttl, clock))
					}
				}
			}
		}
		for i, op := range cs.Ops {
			if failed {
				return
			}
			rec.Count("ops/"+op.Kind, 1)
			e := op.Entity
			switch op.Kind {
			case "tick":
				clock += op.Delta
				if b == "redis" {
					s.mr.FastForward(time.Duration(op.Delta) * time.Second)
				} else {
					for en, stt := range status {
						if stt.known && exists[en] && stt.ttl > 0 && clock > stt.at+stt.ttl {
							if found, id, _, _ := lease(en); found && id != 0 {
								_, _ = s.cli.Revoke(ctx, id)
							}
						}
					}
				}
			case "remove-node":
				if exists[e] {
					_ = st.RemoveNode(ctx, &types.Node{NodeMeta: types.NodeMeta{Name: e, Podname: "p", Endpoint: sim.Prefix + e}})
					exists[e] = false
					delete(status, e)
				}
			case "add-node":
				if !exists[e] {
					if err := addNode(e); err == nil {
						exists[e] = true
					}
					delete(status, e) // whatever an old status key says is not judged
				}
			case "remove-workload":
				if exists[e] {
					_ = st.RemoveWorkload(ctx, c25Workload(e, wls[e]))
					exists[e] = false
					delete(status, e)
				}
			case "add-workload":
				if !exists[e] {
					if err := st.AddWorkload(ctx, c25Workload(e, wls[e]), nil); err == nil {
						exists[e] = true
					}
					delete(status, e)
				}
			case "report-node", "report-workload":
				var err error
				kind := "workload"
				if op.Kind == "report-node" {
					kind = "node"
					err = st.SetNodeStatus(ctx, &types.Node{NodeMeta: types.NodeMeta{Name: e, Podname: "p"}}, op.TTL)
				} else {
					err = st.SetWorkloadStatus(ctx, &types.StatusMeta{ID: e, Appname: "app", Entrypoint: "web", Nodename: wls[e], Running: op.Running, Healthy: op.Healthy}, op.TTL)
				}
				logf("op %d %s(%s, ttl %d) -> %v", i, op.Kind, e, op.TTL, err)
				switch {
				case op.TTL > 0 && !exists[e]:
					rec.Count("reports_for_missing_entity/"+b+"/"+kind, 1)
					// (an older status key may legitimately still be there: nothing is asserted about visibility after removal)
					if err == nil {
						// reported, but the history goes on: the model holds nothing for a missing entity
						cp := *cs
						cp.Ops = append([]c25Op(nil), cs.Ops[:i+1]...)
						cp.Failed = i
						rec.Violation(b+"/"+kind+"/status-accepted-for-missing-entity", fmt.Sprintf("a status with ttl %d was accepted for %s %s, which does not exist — after op %d %+v", op.TTL, kind, e, i, op), &cp)
					}
				case op.TTL > 0 && exists[e]:
					rec.Count("reports_with_ttl/"+b+"/"+kind, 1)
					if err != nil {
						viol(i, kind+"/status-refused-for-live-entity", fmt.Sprintf("a status with ttl %d for existing %s %s was refused: %v", op.TTL, kind, e, err))
						break
					}
					prev := status[e]
					same := prev != nil && prev.known && prev.ttl == op.TTL && prev.running == op.Running && prev.healthy == op.Healthy
					if same {
						rec.Count("re_reports_of_same_status/"+b, 1)
					}
					status[e] = &c25Status{known: true, ttl: op.TTL, at: clock, running: op.Running, healthy: op.Healthy}
					if b == "etcd" {
						found, id, granted, remaining := lease(e)
						switch {
						case !found:
							viol(i, kind+"/status-gone-before-its-ttl", fmt.Sprintf("accepted status of %s has no key", e))
						case id == 0:
							viol(i, kind+"/status-with-ttl-has-no-lease", fmt.Sprintf("status of %s reported with ttl %d is not attached to a lease: it never expires", e, op.TTL))
						case granted != op.TTL:
							viol(i, kind+"/lease-has-wrong-ttl", fmt.Sprintf("status of %s reported with ttl %d is attached to a lease granted for %d s", e, op.TTL, granted))
						case remaining < op.TTL-2:
							viol(i, kind+"/lease-not-renewed-by-report", fmt.Sprintf("status of %s was just reported with ttl %d but its lease has only %d s left", e, op.TTL, remaining))
						default:
							rec.Count("lease_checks/etcd", 1)
						}
					} else {
						if d := s.mr.TTL(key(e)); d != time.Duration(op.TTL)*time.Second {
							viol(i, kind+"/wrong-ttl-on-key", fmt.Sprintf("status of %s reported with ttl %d s has a key ttl of %v", e, op.TTL, d))
						} else {
							rec.Count("ttl_checks/redis", 1)
						}
					}
				case op.TTL == 0 && kind == "workload":
					if !exists[e] {
						rec.Count("ttl0_reports_for_missing_workload_not_judged/"+b, 1)
						break
					}
					rec.Count("reports_ttl0/"+b, 1)
					if err != nil {
						viol(i, kind+"/ttl0-status-refused-for-live-entity", fmt.Sprintf("a status with ttl 0 for existing workload %s was refused: %v", e, err))
						break
					}
					status[e] = &c25Status{known: true, ttl: 0, at: clock, running: op.Running, healthy: op.Healthy}
					if b == "etcd" {
						if found, id, _, _ := lease(e); found && id != 0 {
							viol(i, kind+"/ttl0-status-attached-to-a-lease", fmt.Sprintf("status of %s reported with ttl 0 is attached to lease %x: it will expire", e, int64(id)))
						}
					} else if d := s.mr.TTL(key(e)); d != 0 {
						viol(i, kind+"/ttl0-status-has-a-ttl", fmt.Sprintf("status of %s reported with ttl 0 has a key ttl of %v", e, d))
					}
				case op.TTL < 0 && kind == "node":
					rec.Count("negative_ttl_reports/"+b, 1)
					delete(status, e) // deleted on request: nothing to keep visible
				default:
					rec.Count("reports_not_judged/"+b, 1)
				}
			}
			checkAll(i)
		}
		if !failed {
			rec.Count("histories/"+b, 1)
			rec.Nontrivial(fmt.Sprintf("%s %+v", b, cs.Ops))
			rec.Sample(map[string]any{"backend": b, "ops": len(cs.Ops), "log_tail": tail(cs.Log, 3)})
		}
	}

	if env.Replay != "" {
		var cs c25Case
		if err := vkit.ReadReplay(env.Replay, &cs); err != nil {
			t.Fatal(err)
		}
		cs.Log = nil
		run(&cs)
		return
	}
	n := env.Pick(120, 1800) / env.NBatch
	for i := 0; i < n; i++ {
		cs := &c25Case{Backend: []string{"etcd", "redis"}[i%2]}
		for k := 15 + r.Intn(25); k > 0; k-- {
			cs.Ops = append(cs.Ops, c25GenOp(r, nodes, wids))
		}
		run(cs)
	}
	c25RealTime(rec, s, r, env.Pick(8, 32)/env.NBatch+2)
}

func c25GenOp(r *rand.Rand, nodes, wids []string) c25Op {
	ttls := []int64{5, 5, 30, 60}
	switch k := r.Intn(20); {
	case k < 5:
		op := c25Op{Kind: "report-node", Entity: nodes[r.Intn(len(nodes))], TTL: ttls[r.Intn(4)]}
		if r.Intn(8) == 0 {
			op.TTL = -1
		}
		return op
	case k < 12:
		op := c25Op{Kind: "report-workload", Entity: wids[r.Intn(len(wids))], TTL: ttls[r.Intn(4)], Running: r.Intn(3) != 0, Healthy: r.Intn(2) == 0}
		if r.Intn(4) == 0 {
			op.TTL = 0
		}
		return op
	case k < 13:
		return c25Op{Kind: "remove-node", Entity: nodes[r.Intn(len(nodes))]}
	case k < 14:
		return c25Op{Kind: "add-node", Entity: nodes[r.Intn(len(nodes))]}
	case k < 15:
		return c25Op{Kind: "remove-workload", Entity: wids[r.Intn(len(wids))]}
	case k < 16:
		return c25Op{Kind: "add-workload", Entity: wids[r.Intn(len(wids))]}
	default:
		return c25Op{Kind: "tick", Delta: []int64{1, 2, 4, 7, 20, 33, 70}[r.Intn(7)]}
	}
}

// c25RealTime: on etcd, re-reporting the SAME status must renew the lease (real seconds pass in between).
func c25RealTime(rec *vkit.Rec, s *stores, r *rand.Rand, n int) {
	ctx := context.Background()
	var st store.Store = s.etcd
	s.wipe()
	if _, err := st.AddPod(ctx, "p", ""); err != nil {
		return
	}
	var wg sync.WaitGroup
	for i := 0; i < n; i++ {
		wg.Add(1)
		go func(i int) {
			defer wg.Done()
			node := fmt.Sprintf("rt%d", i)
			id := fmt.Sprintf("rt%dffffffffffffffffffffffffffffffffffffffffffffffffffffffffffff", i)
			if _, err := st.AddNode(ctx, &types.AddNodeOptions{Nodename: node, Endpoint: sim.Prefix + node, Podname: "p"}); err != nil {
				return
			}
			w := &types.Workload{ID: id, Name: utils.MakeWorkloadName("app", "web", id[:6]), Podname: "p", Nodename: node}
			if err := st.AddWorkload(ctx, w, nil); err != nil {
				return
			}
			useNode := i%2 == 0
			key := "/status/app/web/" + node + "/" + id
			// every fourth case: the second report carries a CHANGED value (same ttl): the status must live a full ttl
			// from that latest report as well
			changed := i%4 == 3
			healthy := true
			report := func() error {
				if useNode {
					return st.SetNodeStatus(ctx, &types.Node{NodeMeta: types.NodeMeta{Name: node, Podname: "p"}}, 30)
				}
				return st.SetWorkloadStatus(ctx, &types.StatusMeta{ID: id, Appname: "app", Entrypoint: "web", Nodename: node, Running: true, Healthy: healthy}, 30)
			}
			if useNode {
				key = "/status:node/" + node
			}
			remaining := func() int64 {
				resp, err := s.cli.Get(ctx, key)
				if err != nil || len(resp.Kvs) == 0 || resp.Kvs[0].Lease == 0 {
					return -1
				}
				tl, err := s.cli.TimeToLive(ctx, clientv3.LeaseID(resp.Kvs[0].Lease))
				if err != nil {
					return -1
				}
				return tl.TTL
			}
			if err := report(); err != nil {
				return
			}
			t0 := time.Now()
			time.Sleep(3200 * time.Millisecond)
			before := remaining()
			if changed {
				healthy = false
			}
			if err := report(); err != nil {
				return
			}
			after := remaining()
			elapsed := time.Since(t0)
			kind := map[bool]string{true: "node", false: "workload"}[useNode]
			if changed {
				kind += "-changed-value"
			}
			if before > 27 || elapsed > 10*time.Second {
				rec.Count("realtime_cases_out_of_range", 1) // the measurement itself is off: not judged
				return
			}
			rec.Count("realtime_re_report_checks/etcd/"+kind, 1)
			if after < 29 {
				rec.Violation("etcd/"+kind+"/re-report-does-not-extend-lifetime", fmt.Sprintf("%s status reported with ttl 30, %v later (lease at %d s) the same status was reported again: the lease still has only %d s left", kind, elapsed.Round(time.Millisecond), before, after),
					map[string]any{"kind": kind, "ttl": 30, "remaining_before": before, "remaining_after": after})
			}
		}(i)
	}
	wg.Wait()
}
