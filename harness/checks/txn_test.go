package checks

// C17 — utils.Txn / utils.PCR driven over the complete outcome × cancellation matrix with
// instrumented closures; the oracle is the property's statement, evaluated on the recorded events.

import (
	"context"
	"errors"
	"fmt"
	"sync"
	"testing"
	"time"

	"github.com/projecteru2/core/utils"

	"verifharness/vkit"
)

type txnCase struct {
	Form     string `json:"form"`     // txn | pcr
	Cond     string `json:"cond"`     // ok | fail
	Then     string `json:"then"`     // ok | fail | nil
	Rollback string `json:"rollback"` // ok | fail | nil
	Cancel   string `json:"cancel"`   // none | before | during-cond | during-then | during-rollback | deadline-before
}

func (c txnCase) String() string {
	return fmt.Sprintf("%s cond=%s then=%s rollback=%s cancel=%s", c.Form, c.Cond, c.Then, c.Rollback, c.Cancel)
}

type txnObs struct {
	condRuns, thenRuns, rbRuns int
	rbFlag                     []bool
	rbCtxErrAtEntry            error
	rbCtxErrAfterCancel        error
	rbCtxHasDeadline           bool
	rbCtxDeadlineExpired       bool // the rollback context reports a deadline that had already passed when the rollback ran
	ret                        error
}

func runTxnCase(c txnCase) (o txnObs, errCond, errThen, errRb error) {
	errCond, errThen, errRb = errors.New("cond failed"), errors.New("then failed"), errors.New("rollback failed")
	ctx, cancel := context.WithCancel(context.Background())
	defer cancel()
	if c.Cancel == "before" {
		cancel()
	}
	// the caller's context carries a DEADLINE that passes while the failing step runs: the rollback starts after it
	deadlineCase := c.Cancel == "deadline-passes-in-failing-step"
	if deadlineCase {
		var dcancel context.CancelFunc
		ctx, dcancel = context.WithTimeout(ctx, 3*time.Millisecond)
		defer dcancel()
	}
	outlive := func(sctx context.Context) {
		select {
		case <-sctx.Done():
		case <-time.After(time.Second):
		}
		time.Sleep(time.Millisecond)
	}
	var mu sync.Mutex
	cond := func(cctx context.Context) error {
		mu.Lock()
		o.condRuns++
		mu.Unlock()
		if c.Cancel == "during-cond" {
			cancel()
			select { // the step's own context follows the caller: wait (bounded) until that is visible
			case <-cctx.Done():
			case <-time.After(time.Second):
			}
		}
		if c.Cond == "fail" {
			if deadlineCase {
				outlive(cctx)
			}
			return errCond
		}
		return nil
	}
	var then func(context.Context) error
	if c.Then != "nil" {
		then = func(tctx context.Context) error {
			mu.Lock()
			o.thenRuns++
			mu.Unlock()
			if c.Cancel == "during-then" {
				cancel()
			}
			if c.Then == "fail" {
				if deadlineCase {
					outlive(tctx)
				}
				return errThen
			}
			return nil
		}
	}
	rbBody := func(rctx context.Context, flag *bool) error {
		mu.Lock()
		o.rbRuns++
		if flag != nil {
			o.rbFlag = append(o.rbFlag, *flag)
		}
		o.rbCtxErrAtEntry = rctx.Err()
		var dl time.Time
		dl, o.rbCtxHasDeadline = rctx.Deadline()
		o.rbCtxDeadlineExpired = o.rbCtxHasDeadline && !dl.After(time.Now())
		mu.Unlock()
		if c.Cancel == "during-rollback" {
			cancel()
			time.Sleep(2 * time.Millisecond) // give a (wrong) propagation the chance to happen
		}
		mu.Lock()
		o.rbCtxErrAfterCancel = rctx.Err()
		mu.Unlock()
		if c.Rollback == "fail" {
			return errRb
		}
		return nil
	}
	ttl := time.Minute
	if c.Form == "pcr" {
		o.ret = utils.PCR(ctx, cond, then, func(rctx context.Context) error { return rbBody(rctx, nil) }, ttl)
		return
	}
	var rollback func(context.Context, bool) error
	if c.Rollback != "nil" {
		rollback = func(rctx context.Context, byCond bool) error { return rbBody(rctx, &byCond) }
	}
	o.ret = utils.Txn(ctx, cond, then, rollback, ttl)
	return
}

// judgeTxn is the oracle: the property's statement over the observed events.
func judgeTxn(c txnCase, o txnObs, errCond, errThen error) (key, what string) {
	condFailed := c.Cond == "fail"
	thenPresent := c.Then != "nil"
	thenFailed := !condFailed && c.Then == "fail"
	anyFailed := condFailed || thenFailed
	if o.condRuns != 1 {
		return "cond-not-run-once", fmt.Sprintf("cond ran %d times", o.condRuns)
	}
	wantThen := 0
	if !condFailed && thenPresent {
		wantThen = 1
	}
	if o.thenRuns != wantThen {
		if condFailed {
			return "then-run-after-failed-cond", fmt.Sprintf("follow-up ran %d times although the condition step failed", o.thenRuns)
		}
		return "then-not-run", fmt.Sprintf("follow-up ran %d times, want %d", o.thenRuns, wantThen)
	}
	wantRb := 0
	if c.Form == "pcr" {
		if thenFailed {
			wantRb = 1
		}
	} else if anyFailed && c.Rollback != "nil" {
		wantRb = 1
	}
	if o.rbRuns != wantRb {
		switch {
		case c.Form == "pcr" && condFailed && o.rbRuns > 0:
			return "pcr-rollback-on-prepare-failure", "PCR ran the rollback although only prepare failed"
		case !anyFailed:
			return "rollback-on-success", fmt.Sprintf("rollback ran %d times although no step failed", o.rbRuns)
		case o.rbRuns == 0:
			return "rollback-skipped", "a step failed but the rollback did not run"
		default:
			return "rollback-run-twice", fmt.Sprintf("rollback ran %d times", o.rbRuns)
		}
	}
	if c.Form == "txn" && wantRb == 1 {
		if len(o.rbFlag) != 1 || o.rbFlag[0] != condFailed {
			return "wrong-failure-by-cond", fmt.Sprintf("rollback was told failureByCond=%v, want %v", o.rbFlag, condFailed)
		}
	}
	if wantRb == 1 {
		if o.rbCtxErrAtEntry != nil {
			return "rollback-context-cancelled", fmt.Sprintf("rollback started under a dead context: %v", o.rbCtxErrAtEntry)
		}
		if o.rbCtxErrAfterCancel != nil {
			return "rollback-context-interrupted-by-caller", fmt.Sprintf("caller cancellation reached the rollback context: %v", o.rbCtxErrAfterCancel)
		}
		if o.rbCtxDeadlineExpired {
			return "rollback-context-carries-the-callers-expired-deadline", "the rollback ran under a context whose Deadline() had already passed (the caller's): every deadline-aware client call inside the rollback fails at once"
		}
	}
	var want error
	if condFailed {
		want = errCond
	} else if thenFailed {
		want = errThen
	}
	if !errors.Is(o.ret, want) || (want == nil && o.ret != nil) {
		return "wrong-returned-error", fmt.Sprintf("returned %v, want %v", o.ret, want)
	}
	return "", ""
}

func txnMatrix() []txnCase {
	var cases []txnCase
	cancels := []string{"none", "before", "during-cond", "during-then", "during-rollback", "deadline-passes-in-failing-step"}
	for _, cd := range []string{"ok", "fail"} {
		for _, th := range []string{"ok", "fail", "nil"} {
			for _, rb := range []string{"ok", "fail", "nil"} {
				for _, cn := range cancels {
					cases = append(cases, txnCase{Form: "txn", Cond: cd, Then: th, Rollback: rb, Cancel: cn})
				}
			}
		}
	}
	for _, cd := range []string{"ok", "fail"} {
		for _, th := range []string{"ok", "fail"} {
			for _, rb := range []string{"ok", "fail"} {
				for _, cn := range cancels {
					cases = append(cases, txnCase{Form: "pcr", Cond: cd, Then: th, Rollback: rb, Cancel: cn})
				}
			}
		}
	}
	return cases
}

func TestC17(t *testing.T) {
	env := vkit.Load("C17")
	rec := vkit.NewRec(env)
	defer rec.Finish()
	eval := func(c txnCase) {
		o, ec, et, _ := runTxnCase(c)
		rec.Eval()
		rec.Nontrivial(c.String())
		rec.Count("rollbacks_observed", o.rbRuns)
		rec.Count("then_runs_observed", o.thenRuns)
		if key, what := judgeTxn(c, o, ec, et); key != "" {
			rec.Violation(c.Form+"/"+key, what+" — "+c.String(), c)
		}
	}
	if env.Replay != "" {
		var c txnCase
		if err := vkit.ReadReplay(env.Replay, &c); err != nil {
			t.Fatal(err)
		}
		eval(c)
		return
	}
	cases := txnMatrix()
	for _, c := range cases {
		eval(c)
	}
	rec.Sample(cases[7])
	rec.Sample(cases[61])
	rec.Sample(cases[len(cases)-3])
	// the same matrix from concurrent goroutines (no state may be shared between invocations)
	rounds := env.Pick(20, 400)
	var wg sync.WaitGroup
	for g := 0; g < 16; g++ {
		wg.Add(1)
		go func(g int) {
			defer wg.Done()
			for r := 0; r < rounds; r++ {
				for i := range cases {
					eval(cases[(i+g*7)%len(cases)])
				}
			}
		}(g)
	}
	wg.Wait()
	rec.Count("matrix_size", len(cases))
	rec.SetExhaustive(true)
}
