package checks

// C15 — resource repair restores consistent usage (manager level: GetNodeResourceInfo(fix=true) then fix=false).
// C32 — CalculateRemap gives unbound workloads exactly the free shared cores (plugin level part).

import (
	"context"
	"encoding/json"
	"fmt"
	"math/rand"
	"strconv"
	"testing"

	"github.com/mitchellh/mapstructure"

	cpumemtypes "github.com/projecteru2/core/resource/plugins/cpumem/types"
	plugintypes "github.com/projecteru2/core/resource/plugins/types"
	resourcetypes "github.com/projecteru2/core/resource/types"
	"github.com/projecteru2/core/store/etcdv3/meta"
	coretypes "github.com/projecteru2/core/types"

	"verifharness/vkit"
)

type driftCase struct {
	Node      *nodeState                     `json:"node"`      // capacity + the usage the workloads really add up to
	Workloads []plugintypes.WorkloadResource `json:"workloads"` // recorded workloads (cpumem resources)
	Drift     *cpumemtypes.NodeResource      `json:"drift"`     // the usage record written raw into etcd
	Kinds     []string                       `json:"drift_kinds"`
}

func TestC15(t *testing.T) {
	env := vkit.Load("C15")
	rec := vkit.NewRec(env)
	defer rec.Finish()
	if env.Replay != "" {
		var probe repairClusterCase
		if err := vkit.ReadReplay(env.Replay, &probe); err == nil && probe.Node != "" && probe.Other.Kind != "" {
			c15Cluster(t, env, rec, &probe)
			return
		}
	} else if env.NBatch > 1 && env.Batch == env.NBatch-1 {
		// last batch: the repair at the cluster API, concurrent with an operation on the node (repair_cluster_test.go)
		c15Cluster(t, env, rec, nil)
		return
	}
	me := newMgrEnv(t)
	jr := vkit.OpenJournal(env)
	ctx := context.Background()
	node := "n0"
	rawKV, err := meta.NewETCD(baseConfig(100, -1).Etcd, t)
	if err != nil {
		t.Fatal(err)
	}

	eval := func(c *driftCase) {
		rec.Eval()
		jr.Put(c)
		defer jr.Clear()
		s := c.Node
		m := me.manager(s.ShareBase, s.MaxShare)
		pl := me.pe.plugin(s.ShareBase, s.MaxShare)
		// raw write: capacity from the node state, usage = drifted record
		info := s.info()
		info.Usage = c.Drift
		b, _ := json.Marshal(info)
		if _, err := rawKV.Put(ctx, "/resource/cpumem/"+node, string(b)); err != nil {
			rec.Inconclusive("raw etcd write failed: %v", err)
			return
		}
		wls := []*coretypes.Workload{}
		for i, w := range c.Workloads {
			wls = append(wls, &coretypes.Workload{ID: fmt.Sprintf("w%d", i), Nodename: node, Resources: resourcetypes.Resources{"cpumem": w}})
		}
		_, _, diffs1, err := m.GetNodeResourceInfo(ctx, node, wls, true)
		if err != nil {
			rec.Count("repair_call_error", 1)
			rec.Violation("repair/call-fails", fmt.Sprintf("repair returned error %v for drift %v", err, c.Kinds), c)
			return
		}
		rec.Count("repairs", 1)
		if len(diffs1) > 0 {
			rec.Count("repairs_that_reported_diffs", 1)
		}
		_, _, diffs2, err := m.GetNodeResourceInfo(ctx, node, wls, false)
		if err != nil {
			rec.Violation("repair/check-after-repair-fails", fmt.Sprintf("check after repair returned error %v", err), c)
			return
		}
		for _, k := range c.Kinds {
			rec.Count("drift/"+k, 1)
		}
		rec.Nontrivial(fmt.Sprintf("%s/%v/%v", s.norm(), c.Drift, len(c.Workloads)))
		rec.Sample(map[string]any{"node": s.norm(), "workloads": len(c.Workloads), "drift_kinds": c.Kinds, "diffs_before": diffs1})
		if len(diffs2) > 0 {
			rec.Violation("repair/check-still-reports-differences", fmt.Sprintf("after repair the check still reports %v (drift kinds %v)", diffs2, c.Kinds), c)
			return
		}
		// independent sum
		after, err := readInfo(pl, node)
		if err != nil {
			rec.Violation("repair/record-unreadable-after-repair", err.Error(), c)
			return
		}
		live := []liveWL{}
		for i, w := range c.Workloads {
			live = append(live, liveWL{id: i, res: resourcetypes.Resources{"cpumem": w}})
		}
		cpu, cpuMap, mem, numa, _ := sumLive(live)
		if d := diffUsage(after, cpu, cpuMap, mem, numa); d != "" {
			key := "repair/usage-differs-from-sum-of-workloads"
			for _, k := range c.Kinds {
				if k == "core-outside-capacity" || k == "numa-node-outside-capacity" {
					key = "repair/drift-on-key-outside-capacity-not-repaired"
				}
			}
			rec.Violation(key, fmt.Sprintf("after repair: %s (drift kinds %v, check reports no differences)", d, c.Kinds), c)
		}
	}

	if env.Replay != "" {
		var c driftCase
		if err := vkit.ReadReplay(env.Replay, &c); err != nil {
			t.Fatal(err)
		}
		eval(&c)
		return
	}
	r := env.Rand("c15")
	n := env.Pick(1200, 20000) / env.NBatch
	for i := 0; i < n; i++ {
		// build a node and 0..8 workloads that fit, through the real manager
		s := wholeShareNode(r, 8)
		m := me.manager(s.ShareBase, s.MaxShare)
		pl := me.pe.plugin(s.ShareBase, s.MaxShare)
		if err := me.pe.install(pl, node, s); err != nil {
			continue
		}
		var wls []plugintypes.WorkloadResource
		for j := 0; j < r.Intn(9); j++ {
			q := genRequest(r, s, r.Intn(3) != 0, false)
			if q.MemReq > 500 {
				q.MemReq = int64(r.Intn(5)) * 100
				q.MemLim = q.MemReq
			}
			wr, _, err := m.Alloc(ctx, node, 1, resOf(q))
			if err != nil {
				continue
			}
			wls = append(wls, wr[0]["cpumem"])
		}
		good, err := readInfo(pl, node)
		if err != nil {
			continue
		}
		c := &driftCase{Node: stateFromInfo(s.ShareBase, s.MaxShare, good), Workloads: wls}
		c.Drift, c.Kinds = genDrift(r, good)
		eval(c)
	}
	// minimum-observation thresholds are run-level (all batches merged): checks_table.py min_observed, applied
	// by the driver. A per-batch threshold here would depend on how the run is split into batches.
}

func genDrift(r *rand.Rand, good *cpumemtypes.NodeResourceInfo) (*cpumemtypes.NodeResource, []string) {
	u := good.Usage.DeepCopy()
	u.NUMA = good.Capacity.NUMA
	kinds := []string{}
	add := func(k string) { kinds = append(kinds, k) }
	cores := sortedKeys(map[string]int(good.Capacity.CPUMap))
	nd := 1 + r.Intn(3)
	for i := 0; i < nd; i++ {
		switch r.Intn(10) {
		case 0:
			c := cores[r.Intn(len(cores))]
			u.CPUMap[c] += 1 + r.Intn(150)
			add("core-extra")
		case 1:
			c := cores[r.Intn(len(cores))]
			u.CPUMap[c] -= 1 + r.Intn(150) // may go negative
			add("core-missing")
		case 2:
			c := cores[r.Intn(len(cores))]
			delete(u.CPUMap, c)
			add("core-key-dropped")
		case 3:
			u.CPUMap[strconv.Itoa(len(cores)+r.Intn(3))] = 1 + r.Intn(100)
			add("core-outside-capacity")
		case 4:
			u.Memory += int64(r.Intn(2000) - 1000)
			add("memory")
		case 5:
			u.Memory = good.Capacity.Memory + 1 + int64(r.Intn(100))
			add("memory-over-capacity")
		case 6:
			u.CPU += float64(r.Intn(300)-150) / 100
			add("cpu-total")
		case 7:
			if len(good.Capacity.NUMAMemory) > 0 {
				n := []string{"0", "1"}[r.Intn(2)]
				u.NUMAMemory[n] += int64(r.Intn(2000) - 1000)
				add("numa-memory")
			} else {
				u.Memory -= 1 + int64(r.Intn(100))
				add("memory")
			}
		case 8:
			if len(good.Capacity.NUMAMemory) > 0 {
				u.NUMAMemory["7"] = 1 + int64(r.Intn(100))
				add("numa-node-outside-capacity")
			} else {
				u.CPU = -1
				add("cpu-total")
			}
		default:
			// wipe everything
			u = &cpumemtypes.NodeResource{CPUMap: cpumemtypes.CPUMap{}, NUMAMemory: cpumemtypes.NUMAMemory{}, NUMA: good.Capacity.NUMA}
			add("usage-wiped")
		}
	}
	return u, kinds
}

// ---- C32 (plugin level) ---------------------------------------------------------------------

type remapCase struct {
	Node      *nodeState                              `json:"node"`
	Workloads map[string]plugintypes.WorkloadResource `json:"workloads"`
}

func TestC32(t *testing.T) {
	env := vkit.Load("C32")
	rec := vkit.NewRec(env)
	defer rec.Finish()
	pe := newPlugEnv(t)
	jr := vkit.OpenJournal(env)
	ctx := context.Background()
	node := "n0"

	eval := func(c *remapCase) {
		rec.Eval()
		jr.Put(c)
		defer jr.Clear()
		s := c.Node
		pl := pe.plugin(s.ShareBase, s.MaxShare)
		if err := pe.install(pl, node, s); err != nil {
			rec.Count("generator_invalid_state", 1)
			return
		}
		resp, err := pl.CalculateRemap(ctx, node, c.Workloads)
		if err != nil {
			rec.Violation("remap/call-fails", err.Error(), c)
			return
		}
		rec.Count("remap_calls", 1)
		// reference: cores with at least one full share free; all cores if none
		want := map[string]int{}
		for core, capv := range s.CapCPU {
			if capv-s.UseCPU[core] >= s.ShareBase {
				want[core] = 1
			}
		}
		allFallback := false
		if len(want) == 0 {
			allFallback = true
			for core := range s.CapCPU {
				want[core] = 1
			}
		}
		bound, unbound := 0, 0
		for id, raw := range c.Workloads {
			w := &cpumemtypes.WorkloadResource{}
			_ = w.Parse(raw)
			ep, present := resp.EngineParamsMap[id]
			if len(w.CPUMap) > 0 {
				bound++
				if present {
					rec.Violation("remap/bound-workload-touched", fmt.Sprintf("workload %s is bound to %v but appears in the remap result", id, w.CPUMap), c)
					return
				}
				continue
			}
			unbound++
			if !present {
				rec.Violation("remap/unbound-workload-missing", fmt.Sprintf("unbound workload %s is absent from the remap result", id), c)
				return
			}
			e := &cpumemtypes.EngineParams{}
			if err := mapstructure.Decode(map[string]any(ep), e); err != nil {
				rec.Inconclusive("cannot parse engine params: %v", err)
				return
			}
			got := map[string]int{}
			for core := range e.CPUMap {
				got[core] = 1
			}
			if coreSet(got) != coreSet(want) {
				rec.Violation("remap/wrong-shared-core-set", fmt.Sprintf("unbound workload %s remapped to cores {%s}, cores with a full share free are {%s} (fallback to all: %v) — node %s", id, coreSet(got), coreSet(want), allFallback, s.norm()), c)
				return
			}
			if !e.Remap {
				rec.Violation("remap/remap-flag-missing", fmt.Sprintf("engine params of unbound workload %s lack the remap flag", id), c)
				return
			}
		}
		rec.Count("bound_workloads_seen", bound)
		rec.Count("unbound_workloads_checked", unbound)
		if allFallback {
			rec.Count("fallback_all_cores_cases", 1)
		}
		if unbound > 0 && bound > 0 {
			rec.Nontrivial(s.norm() + fmt.Sprint(len(c.Workloads)))
			rec.Sample(map[string]any{"node": s.norm(), "bound": bound, "unbound": unbound, "shared_cores": coreSet(want)})
		}
	}
	if env.Replay != "" {
		var cc remapClusterCase
		if err := vkit.ReadReplay(env.Replay, &cc); err == nil && cc.Topology != nil {
			c32Cluster(t, env, rec, &cc)
			return
		}
		var c remapCase
		if err := vkit.ReadReplay(env.Replay, &c); err != nil {
			t.Fatal(err)
		}
		eval(&c)
		return
	}
	defer c32Cluster(t, env, rec, nil) // part (b): cluster level, after the plugin-level block
	r := env.Rand("c32")
	n := env.Pick(4000, 60000) / env.NBatch
	for i := 0; i < n; i++ {
		s := genNodeState(r, genOpts{maxCores: env.Pick(8, 16), oddShares: true, numa: true})
		c := &remapCase{Node: s, Workloads: map[string]plugintypes.WorkloadResource{}}
		cores := sortedKeys(s.CapCPU)
		for j := 0; j < 1+r.Intn(6); j++ {
			w := &cpumemtypes.WorkloadResource{CPURequest: float64(1+r.Intn(200)) / 100, MemoryRequest: int64(r.Intn(100)), MemoryLimit: int64(r.Intn(100))}
			w.CPULimit = w.CPURequest
			if r.Intn(2) == 0 {
				w.CPUMap = cpumemtypes.CPUMap{cores[r.Intn(len(cores))]: 1 + r.Intn(s.ShareBase)}
			}
			c.Workloads[fmt.Sprintf("w%d", j)] = toRaw(w)
		}
		eval(c)
	}
	// minimum-observation thresholds are run-level (all batches merged): MIN_OBSERVED in checks_table.py, applied by the driver
}
