package checks

// C29 — file transfers deliver identical content and always finish.
//
// The real rpc.Vibranium (Send and SendLargeFile) is served over an in-process gRPC connection (bufconn) on top
// of the simulator's Calcium; targets live on in-memory engine hosts whose copy behaviour is scripted per target
// (success, slow reader, immediate error, error after reading k bytes). Every call runs under a watchdog.

import (
	"bytes"
	"context"
	"fmt"
	"io"
	"math/rand"
	"net"
	"sort"
	"strings"
	"testing"
	"time"

	"google.golang.org/grpc"
	"google.golang.org/grpc/credentials/insecure"
	"google.golang.org/grpc/test/bufconn"

	"github.com/projecteru2/core/rpc"
	pb "github.com/projecteru2/core/rpc/gen"
	"github.com/projecteru2/core/types"

	"verifharness/sim"
	"verifharness/vkit"
)

type c29File struct {
	Path string `json:"path"`
	Size int    `json:"size"`
	UID  int    `json:"uid"`
	GID  int    `json:"gid"`
	Mode int64  `json:"mode"`
	Seed int64  `json:"content_seed"`
}

type c29Target struct {
	Kind      string `json:"kind"` // existing | missing
	Index     int    `json:"index"`
	Behaviour string `json:"engine"` // ok | slow | error | partial
	ReadBytes int64  `json:"partial_read_bytes,omitempty"`
	Repeat    int    `json:"listed_times"` // >1: the id is listed several times in the request
}

type c29Case struct {
	API     string      `json:"api"` // send | send-large | send-direct (calcium.Send without the RPC layer)
	Files   []c29File   `json:"files"`
	Targets []c29Target `json:"targets"`
	Results []string    `json:"results,omitempty"`
	// AbandonFirst: before this call the same targets are sent a 12-chunk file by a caller that goes away
	// (cancels) as soon as the first result arrived; the call judged here must be unaffected
	AbandonFirst bool `json:"preceded_by_abandoned_call,omitempty"`
}

func c29Content(f c29File) []byte {
	r := rand.New(rand.NewSource(f.Seed))
	b := make([]byte, f.Size)
	_, _ = r.Read(b)
	return b
}

func TestC29(t *testing.T) {
	env := vkit.Load("C29")
	rec := vkit.NewRec(env)
	defer rec.Finish()
	w := newWorld(t, env, rec, false)
	r := env.Rand("c29")
	chunk := types.SendLargeFileChunkSize

	lis := bufconn.Listen(4 << 20)
	stop := make(chan struct{})
	vib := rpc.New(w.cl.C, w.cl.Cfg, stop)
	srv := grpc.NewServer(grpc.MaxRecvMsgSize(64 << 20))
	pb.RegisterCoreRPCServer(srv, vib)
	go func() { _ = srv.Serve(lis) }()
	defer srv.Stop()
	conn, err := grpc.Dial("bufnet", grpc.WithContextDialer(func(context.Context, string) (net.Conn, error) { return lis.Dial() }),
		grpc.WithTransportCredentials(insecure.NewCredentials()), grpc.WithDefaultCallOptions(grpc.MaxCallSendMsgSize(64<<20)))
	if err != nil {
		t.Fatal(err)
	}
	defer conn.Close()
	cli := pb.NewCoreRPCClient(conn)

	topo := &sim.Topology{Pods: []string{"pa"}, Nodes: []sim.NodeSpec{{Name: "n1", Pod: "pa", Cores: 4, Memory: 8 << 30, Up: true}, {Name: "n2", Pod: "pa", Cores: 4, Memory: 8 << 30, Up: true}}}
	var ids []string
	rebuild := func() bool {
		setup := []sim.Op{{Kind: "create", App: "app", Entry: "web", Pod: "pa", Strategy: "AUTO", Count: 3, Res: sim.Res{CPU: 0.2, Memory: 1 << 24}}}
		if err := w.rebuild(topo, setup); err != nil {
			return false
		}
		ids = w.model.Sorted()
		return len(ids) == 3
	}
	if !rebuild() {
		t.Fatal("setup failed")
	}
	hostOf := func(id string) *sim.Host { return sim.GetHost(sim.Prefix + w.model.Live[id]) }
	hung := 0

	run := func(c *c29Case) {
		rec.Eval()
		if hung > 0 {
			// goroutines of a call that never finished may still hold workload locks: start from a fresh cluster state
			if !rebuild() {
				rec.Inconclusive("rebuild after a hung call failed")
				return
			}
			hung = 0
		}
		// targets
		reqIDs := []string{}
		distinct := map[string]c29Target{}
		for _, tg := range c.Targets {
			id := ""
			if tg.Kind == "existing" {
				id = ids[tg.Index%len(ids)]
			} else {
				id = fmt.Sprintf("%064x", 0xdead0000+tg.Index)
			}
			for k := 0; k < tg.Repeat; k++ {
				reqIDs = append(reqIDs, id)
			}
			if _, ok := distinct[id]; !ok {
				distinct[id] = tg
			}
		}
		for _, id := range ids {
			if h := hostOf(id); h != nil {
				h.SetCopyBehaviour(func(cid, path string) sim.CopyBehaviour {
					if tg, ok := distinct[cid]; ok {
						return sim.CopyBehaviour{Mode: tg.Behaviour, ReadBytes: tg.ReadBytes}
					}
					return sim.CopyBehaviour{Mode: "ok"}
				})
			}
		}
		// classes for finding keys
		classes := []string{}
		addClass := func(s string) {
			for _, x := range classes {
				if x == s {
					return
				}
			}
			classes = append(classes, s)
		}
		for _, tg := range c.Targets {
			if tg.Kind == "missing" {
				addClass("missing-target")
			} else if tg.Behaviour == "error" || tg.Behaviour == "partial" {
				addClass("engine-" + tg.Behaviour)
			}
		}
		occ := map[string]int{}
		for _, id := range reqIDs {
			if occ[id]++; occ[id] == 2 {
				addClass("duplicated-target")
			}
		}
		maxChunks := 0
		for _, f := range c.Files {
			if f.Size == 0 {
				addClass("empty-file")
			}
			if n := (f.Size + chunk - 1) / chunk; n > maxChunks {
				maxChunks = n
			}
		}
		if maxChunks > 11 {
			addClass("more-than-11-chunks")
		}
		sort.Strings(classes)
		class := strings.Join(classes, "+")
		if class == "" {
			class = "plain"
		}
		viol := func(key, what string) {
			rec.Violation("send/"+c.API+"/"+key+"/"+class, what+fmt.Sprintf(" — %s, %d file(s) sizes %v, targets %+v", c.API, len(c.Files), sizes(c.Files), c.Targets), c)
		}
		if c.AbandonFirst && len(reqIDs) >= 2 {
			actx, acancel := context.WithCancel(context.Background())
			o := &pb.SendOptions{IDs: reqIDs, Data: map[string][]byte{"/data/abandoned": make([]byte, 12*chunk)}, Modes: map[string]*pb.FileMode{"/data/abandoned": {Mode: 0o644}}, Owners: map[string]*pb.FileOwner{"/data/abandoned": {Uid: 1, Gid: 1}}}
			if st, err := cli.Send(actx, o); err == nil {
				_, _ = st.Recv() // the first result, then the caller is gone
			}
			acancel()
			time.Sleep(300 * time.Millisecond)
			rec.Count("abandoned_calls", 1)
			addClass("after-abandoned-call")
			sort.Strings(classes)
			class = strings.Join(classes, "+")
		}
		ctx, cancel := context.WithTimeout(context.Background(), 45*time.Second)
		defer cancel()
		type res struct{ id, path, err string }
		results := []res{}
		done := make(chan error, 1)
		go func() {
			switch c.API {
			case "send-direct":
				// the cluster API's own Send (the RPC handler routes through the chunked sender instead)
				o := &types.SendOptions{IDs: reqIDs}
				for _, f := range c.Files {
					o.Files = append(o.Files, types.LinuxFile{Filename: f.Path, Content: c29Content(f), UID: f.UID, GID: f.GID, Mode: f.Mode})
				}
				ch, err := w.cl.C.Send(w.cl.Ctx("send"), o)
				if err != nil {
					done <- err
					return
				}
				for m := range ch {
					e := ""
					if m.Error != nil {
						e = m.Error.Error()
					}
					results = append(results, res{m.ID, m.Path, e})
				}
				done <- nil
			case "send":
				o := &pb.SendOptions{IDs: reqIDs, Data: map[string][]byte{}, Modes: map[string]*pb.FileMode{}, Owners: map[string]*pb.FileOwner{}}
				for _, f := range c.Files {
					o.Data[f.Path] = c29Content(f)
					o.Modes[f.Path] = &pb.FileMode{Mode: f.Mode}
					o.Owners[f.Path] = &pb.FileOwner{Uid: int32(f.UID), Gid: int32(f.GID)}
				}
				st, err := cli.Send(ctx, o)
				if err != nil {
					done <- err
					return
				}
				for {
					m, err := st.Recv()
					if err == io.EOF {
						done <- nil
						return
					}
					if err != nil {
						done <- err
						return
					}
					results = append(results, res{m.Id, m.Path, m.Error})
				}
			default:
				st, err := cli.SendLargeFile(ctx)
				if err != nil {
					done <- err
					return
				}
				recvDone := make(chan error, 1)
				go func() {
					for {
						m, err := st.Recv()
						if err == io.EOF {
							recvDone <- nil
							return
						}
						if err != nil {
							recvDone <- err
							return
						}
						results = append(results, res{m.Id, m.Path, m.Error})
					}
				}()
				f := c.Files[0] // one file per stream (the sender treats a second destination as an error)
				content := c29Content(f)
				for off := 0; off < len(content) || off == 0; off += chunk {
					end := off + chunk
					if end > len(content) {
						end = len(content)
					}
					if err := st.Send(&pb.FileOptions{Ids: reqIDs, Dst: f.Path, Size: int64(f.Size), Mode: &pb.FileMode{Mode: f.Mode}, Owner: &pb.FileOwner{Uid: int32(f.UID), Gid: int32(f.GID)}, Chunk: content[off:end]}); err != nil {
						break
					}
					if len(content) == 0 {
						break
					}
				}
				_ = st.CloseSend()
				done <- <-recvDone
			}
		}()
		var callErr error
		select {
		case callErr = <-done:
		case <-time.After(50 * time.Second):
			callErr = context.DeadlineExceeded
		}
		rec.Count("calls/"+c.API, 1)
		rec.Count("calls_of_class/"+class, 1)
		if callErr != nil && (strings.Contains(callErr.Error(), "DeadlineExceeded") || callErr == context.DeadlineExceeded) {
			hung++
			viol("never-finishes", "the call did not finish within 30 s (typical: milliseconds)")
			return
		}
		if callErr != nil {
			viol("call-fails", "the call failed: "+callErr.Error())
			return
		}
		for _, x := range results {
			c.Results = append(c.Results, fmt.Sprintf("%.8s %s err=%q", x.id, x.path, x.err))
		}
		// exactly one result per distinct target and file
		nfiles := len(c.Files)
		if c.API == "send-large" {
			nfiles = 1
		}
		per := map[string]int{}
		for _, x := range results {
			per[x.id]++
		}
		for id := range distinct {
			if per[id] != nfiles {
				viol("wrong-number-of-results", fmt.Sprintf("target %.8s got %d result(s) for %d file(s) (all results: %v)", id, per[id], nfiles, c.Results))
				return
			}
		}
		if len(results) != nfiles*len(distinct) {
			viol("wrong-number-of-results", fmt.Sprintf("%d result(s) for %d target(s) x %d file(s): %v", len(results), len(distinct), nfiles, c.Results))
			return
		}
		// content / owner / mode on every target whose engine accepted the copy; an error reported for every other one
		for id, tg := range distinct {
			okTarget := tg.Kind == "existing" && (tg.Behaviour == "ok" || tg.Behaviour == "slow")
			for _, x := range results {
				if x.id != id {
					continue
				}
				if okTarget && x.err != "" {
					viol("error-reported-for-healthy-target", fmt.Sprintf("target %.8s (engine %s) reported %q", id, tg.Behaviour, x.err))
					return
				}
				if !okTarget && x.err == "" {
					viol("success-reported-for-failed-target", fmt.Sprintf("target %.8s (%s, engine %s) reported success", id, tg.Kind, tg.Behaviour))
					return
				}
			}
			if !okTarget {
				continue
			}
			cont, _ := hostOf(id).Get(id)
			for fi, f := range c.Files {
				if c.API == "send-large" && fi > 0 {
					break
				}
				got, ok := cont.Files[f.Path]
				want := c29Content(f)
				switch {
				case !ok:
					viol("file-missing-on-target", fmt.Sprintf("target %.8s has no file %s", id, f.Path))
					return
				case !bytes.Equal(got.Content, want):
					viol("content-differs", fmt.Sprintf("target %.8s file %s holds %d bytes, input has %d bytes (first difference at %d)", id, f.Path, len(got.Content), len(want), firstDiff(got.Content, want)))
					return
				case got.UID != f.UID || got.GID != f.GID || !c29ModeOK(f, got.Mode):
					viol("owner-or-mode-differs", fmt.Sprintf("target %.8s file %s has uid/gid/mode %d/%d/%o, requested %d/%d/%o", id, f.Path, got.UID, got.GID, got.Mode, f.UID, f.GID, f.Mode))
					return
				}
				rec.Count("files_compared_byte_for_byte", 1)
			}
		}
		rec.Nontrivial(fmt.Sprintf("%+v", *c))
		if r.Intn(8) == 0 {
			rec.Sample(map[string]any{"api": c.API, "sizes": sizes(c.Files), "targets": c.Targets, "results": tail(c.Results, 3)})
		}
	}

	if env.Replay != "" {
		var c c29Case
		if err := vkit.ReadReplay(env.Replay, &c); err != nil {
			t.Fatal(err)
		}
		c.Results = nil
		run(&c)
		return
	}
	sizesPool := []int{0, 1, chunk - 1, chunk, chunk + 1, 2 * chunk, 9*chunk + 1, 10 * chunk, 11*chunk + 1, 18 * chunk, 40 * chunk}
	n := env.Pick(160, 2400) / env.NBatch
	for i := 0; i < n; i++ {
		c := &c29Case{API: []string{"send", "send-large"}[r.Intn(2)]}
		nf := 1
		if c.API == "send" && r.Intn(3) == 0 {
			nf = 2
		}
		if i%4 == 3 {
			c.API, nf = "send-direct", 1+r.Intn(4)
		}
		for k := 0; k < nf; k++ {
			c.Files = append(c.Files, c29File{Path: fmt.Sprintf("/data/f%d", k), Size: sizesPool[r.Intn(len(sizesPool))], UID: r.Intn(3), GID: r.Intn(3), Mode: []int64{0o644, 0o600, 0o755, 0}[r.Intn(4)], Seed: r.Int63()})
		}
		nt := 1 + r.Intn(3)
		for k := 0; k < nt; k++ {
			tg := c29Target{Kind: "existing", Index: r.Intn(3), Behaviour: "ok", Repeat: 1}
			switch x := r.Intn(12); {
			case x < 3:
				tg.Behaviour = "slow"
			case x < 4:
				tg.Behaviour = "error"
			case x < 5:
				tg.Behaviour, tg.ReadBytes = "partial", int64(r.Intn(3*chunk))
			case x < 6:
				tg.Kind, tg.Index = "missing", r.Intn(2)
			}
			if r.Intn(8) == 0 {
				tg.Repeat = 2
			}
			c.Targets = append(c.Targets, tg)
		}
		c.AbandonFirst = nt >= 2 && r.Intn(6) == 0
		run(c)
	}
}

func sizes(fs []c29File) []int {
	out := []int{}
	for _, f := range fs {
		out = append(out, f.Size)
	}
	return out
}

func firstDiff(a, b []byte) int {
	n := len(a)
	if len(b) < n {
		n = len(b)
	}
	for i := 0; i < n; i++ {
		if a[i] != b[i] {
			return i
		}
	}
	return n
}

// c29ModeOK: the file has the requested mode. A request that states neither owner nor mode (all zero) is taken by
// the validating entry points (calcium.Send, the SendLargeFile RPC) as asking for the default 0755, the Send RPC hands
// it on as it is: both readings are accepted for that one input. A mode of 0 next to an owner is a request for mode 0.
func c29ModeOK(f c29File, got int64) bool {
	if f.UID == 0 && f.GID == 0 && f.Mode == 0 {
		return got == 0 || got == 0o755
	}
	return got == f.Mode
}
