package checks

// C04 (no overcommit), C05 (exact CPU amount), C06 (terminates, never panics) — monitors over the real
// cpumem plugin on embedded etcd and over schedule.GetCPUPlans directly.

import (
	"context"
	"fmt"
	"math"
	"math/rand"
	"strings"
	"testing"

	"github.com/projecteru2/core/resource/plugins/cpumem"
	"github.com/projecteru2/core/resource/plugins/cpumem/schedule"
	cpumemtypes "github.com/projecteru2/core/resource/plugins/cpumem/types"
	plugintypes "github.com/projecteru2/core/resource/plugins/types"

	"verifharness/vkit"
)

type planCase struct {
	Node   *nodeState     `json:"node"`
	Req    wlRequest      `json:"request"`
	Count  int            `json:"count,omitempty"`  // 0: derive from reported capacity
	Via    string         `json:"via"`              // plugin | planner
	Origin map[string]int `json:"origin,omitempty"` // realloc/affinity: cpu map of the workload being re-planned
	Place  *wlRequest     `json:"place,omitempty"`  // plugin-realloc: the request that placed the workload; Req is then the realloc delta
}

func (c *planCase) norm() string { return c.Via + "/" + c.Node.norm() + "/" + c.Req.norm() }

type verdict struct{ key, what string }

// jointFit is the C04 oracle over a set of planned instances.
func jointFit(s *nodeState, ws []*cpumemtypes.WorkloadResource, memReq int64) *verdict {
	free := s.freeCPU()
	used := map[string]int{}
	numaMem := map[string]int64{}
	var mem int64
	for _, w := range ws {
		for c, p := range w.CPUMap {
			if _, ok := s.CapCPU[c]; !ok {
				return &verdict{"plan/unknown-core", fmt.Sprintf("instance uses core %s which the node does not have", c)}
			}
			if p <= 0 {
				return &verdict{"plan/non-positive-pieces", fmt.Sprintf("instance gets %d pieces of core %s", p, c)}
			}
			used[c] += p
			if w.NUMANode != "" && s.NUMA[c] != w.NUMANode {
				return &verdict{"numa/core-outside-numa-node", fmt.Sprintf("instance placed on NUMA node %s uses core %s of NUMA node %q", w.NUMANode, c, s.NUMA[c])}
			}
		}
		if w.NUMANode != "" {
			numaMem[w.NUMANode] += w.MemoryRequest
			if w.NUMAMemory[w.NUMANode] != w.MemoryRequest {
				return &verdict{"numa/numa-memory-record-mismatch", fmt.Sprintf("instance on NUMA node %s records numa_memory %v for memory request %d", w.NUMANode, w.NUMAMemory, w.MemoryRequest)}
			}
		}
		mem += w.MemoryRequest
	}
	for c, u := range used {
		if u > free[c] {
			return &verdict{"cpu/core-overcommitted", fmt.Sprintf("core %s: instances take %d pieces jointly, only %d free", c, u, free[c])}
		}
	}
	for n, m := range numaMem {
		if f := s.CapNUMAMem[n] - s.UseNUMAMem[n]; m > f {
			return &verdict{"numa/numa-memory-overcommitted", fmt.Sprintf("NUMA node %s: instances take %d memory jointly, only %d free", n, m, f)}
		}
	}
	if f := s.CapMem - s.UseMem; mem > f && mem > 0 {
		key := "memory/overcommitted"
		if len(numaMem) > 0 {
			key = "numa/plans-exceed-total-free-memory"
		}
		return &verdict{key, fmt.Sprintf("instances request %d memory jointly, only %d free", mem, f)}
	}
	return nil
}

// exactCPU is the C05 oracle for one bound instance.
func exactCPU(base int, cpuReq float64, w *cpumemtypes.WorkloadResource) *verdict {
	want := int(math.Floor(cpuReq*float64(base) + 0.5))
	sum, frags := 0, 0
	for _, p := range w.CPUMap {
		sum += p
		if p < base {
			frags++
		} else if p != base {
			return &verdict{"bind/core-above-full-share", fmt.Sprintf("a core carries %d pieces (> full share %d)", p, base)}
		}
	}
	if sum != want {
		key := "bind/wrong-piece-total"
		if sum == int(cpuReq*float64(base)) && sum == want-1 {
			key = "bind/pieces-truncated"
		}
		return &verdict{key, fmt.Sprintf("request %g CPU at share base %d should get %d pieces, got %d (%v)", cpuReq, base, want, sum, w.CPUMap)}
	}
	if frags > 1 {
		return &verdict{"bind/more-than-one-fragment-core", fmt.Sprintf("request %g got %d fractional cores: %v", cpuReq, frags, w.CPUMap)}
	}
	if math.Abs(w.CPURequest*float64(base)-float64(sum)) >= 0.5 {
		return &verdict{"bind/recorded-cpu-disagrees-with-pieces", fmt.Sprintf("recorded cpu_request %g but %d pieces at base %d", w.CPURequest, sum, base)}
	}
	return nil
}

// usageWithinCapacity checks a read-back node record (after commit).
func usageWithinCapacity(info *cpumemtypes.NodeResourceInfo) *verdict {
	for c, u := range info.Usage.CPUMap {
		if u > info.Capacity.CPUMap[c] {
			return &verdict{"commit/core-usage-above-capacity", fmt.Sprintf("after commit core %s usage %d > capacity %d", c, u, info.Capacity.CPUMap[c])}
		}
	}
	for n, u := range info.Usage.NUMAMemory {
		if u > info.Capacity.NUMAMemory[n] {
			return &verdict{"commit/numa-memory-usage-above-capacity", fmt.Sprintf("after commit NUMA node %s memory usage %d > capacity %d", n, u, info.Capacity.NUMAMemory[n])}
		}
	}
	if info.Usage.Memory > info.Capacity.Memory {
		return &verdict{"commit/memory-usage-above-capacity", fmt.Sprintf("after commit memory usage %d > capacity %d", info.Usage.Memory, info.Capacity.Memory)}
	}
	return nil
}

type plannerRun struct {
	id   string
	env  *vkit.Env
	rec  *vkit.Rec
	pe   *plugEnv
	jr   *vkit.Journal
	node string
}

func classifyPanic(g guardResult) string {
	switch {
	case strings.Contains(g.panicVal, "slice bounds out of range") && strings.Contains(g.stack, "(*host).getCPUPlans"):
		return "maxshare/negative-diff-slice-panic"
	case strings.Contains(g.panicVal, "slice bounds out of range") && strings.Contains(g.stack, "doGetCPUPlans"):
		return "numa/negative-memory-slice-panic"
	case strings.Contains(g.panicVal, "divide by zero"):
		return "bind/sub-piece-request-divides-by-zero"
	case strings.Contains(g.panicVal, "index out of range"):
		return "planner/index-out-of-range-panic"
	}
	return "planner/panic"
}

// guarded runs one plugin/planner call; on panic or hang it records (C06) or skips (others).
func (pr *plannerRun) guarded(c *planCase, what string, f func()) bool {
	pr.jr.Put(map[string]any{"call": what, "case": c})
	g := guard(guardPatience, f)
	pr.jr.Clear()
	if g.panicked {
		if pr.id == "C06" {
			pr.rec.Violation(classifyPanic(g), fmt.Sprintf("%s panicked: %s — node %s request %s", what, g.panicVal, c.Node.norm(), c.Req.norm()), c)
		} else {
			pr.rec.Skip("panic in " + what + " (reported under C06: " + classifyPanic(g) + ")")
		}
		return false
	}
	if g.hung {
		if pr.id == "C06" {
			key := "planner/call-never-returns"
			if c.Req.effective().CPUReq*float64(c.Node.ShareBase) < 1 {
				key = "bind/sub-piece-request-loops"
			}
			pr.rec.Violation(key, fmt.Sprintf("%s did not return within 20 s (runaway allocation: %v) — node %s request %s", what, g.runaway, c.Node.norm(), c.Req.norm()), c)
		} else {
			pr.rec.Skip("hang in " + what + " (reported under C06)")
		}
		dieAfterHang(pr.rec)
	}
	return true
}

func (pr *plannerRun) viol(c *planCase, v *verdict, extra string) {
	pr.rec.Violation(v.key, v.what+" — "+extra+" node "+c.Node.norm()+" request "+c.Req.norm(), c)
}

// evalPlugin drives one case through the real plugin.
func (pr *plannerRun) evalPlugin(c *planCase) {
	rec := pr.rec
	ctx := context.Background()
	rec.Eval()
	s := c.Node
	pl := pr.pe.plugin(s.ShareBase, s.MaxShare)
	if err := pr.pe.install(pl, pr.node, s); err != nil {
		rec.Count("generator_invalid_state", 1)
		return
	}
	eff := c.Req.effective()
	var capResp *plugintypes.GetNodesDeployCapacityResponse
	var err error
	if !pr.guarded(c, "GetNodesDeployCapacity", func() { capResp, err = pl.GetNodesDeployCapacity(ctx, []string{pr.node}, c.Req.raw()) }) {
		return
	}
	if err != nil {
		rec.Count("capacity_error", 1)
		return
	}
	capacity := 0
	if nc, ok := capResp.NodeDeployCapacityMap[pr.node]; ok {
		capacity = nc.Capacity
	}
	rec.Count("capacity_calls", 1)
	if capacity == 0 {
		rec.Count("capacity_zero", 1)
	}
	counts := []int{}
	if c.Count > 0 {
		counts = []int{c.Count}
	} else if capacity > 0 {
		lim := capacity
		if lim > 64 {
			lim = 64
		}
		counts = append(counts, 1)
		if lim > 2 {
			counts = append(counts, lim-1)
		}
		if lim > 1 {
			counts = append(counts, lim)
		}
	}
	nontrivial := false
	for _, k := range counts {
		var resp *plugintypes.CalculateDeployResponse
		if !pr.guarded(c, fmt.Sprintf("CalculateDeploy(count=%d)", k), func() { resp, err = pl.CalculateDeploy(ctx, pr.node, k, c.Req.raw()) }) {
			return
		}
		if err != nil {
			rec.Count("deploy_refused", 1)
			continue
		}
		rec.Count("deploy_responses", 1)
		ws, perr := parseWorkloads(resp.WorkloadsResource)
		if perr != nil {
			rec.Inconclusive("cannot parse workload resources: %v", perr)
			continue
		}
		if len(ws) != k {
			if pr.id == "C04" {
				pr.viol(c, &verdict{"plan/wrong-instance-count", fmt.Sprintf("asked for %d instances, got %d", k, len(ws))}, "")
			}
			continue
		}
		if eff.Bind && (k >= 2 || len(s.NUMA) > 0) {
			nontrivial = true
		}
		rec.Count("instances_planned", len(ws))
		switch pr.id {
		case "C04":
			if v := jointFit(s, ws, eff.MemReq); v != nil {
				pr.viol(c, v, fmt.Sprintf("CalculateDeploy(count=%d)", k))
				continue
			}
			// commit, read back, restore
			_, cerr := pl.SetNodeResourceUsage(ctx, pr.node, nil, nil, resp.WorkloadsResource, true, true)
			if cerr != nil {
				pr.viol(c, &verdict{"commit/rejected-by-plugin", fmt.Sprintf("committing %d planned instances was rejected: %v", k, cerr)}, "")
			} else {
				rec.Count("commits", 1)
				if info, rerr := readInfo(pl, pr.node); rerr == nil {
					if v := usageWithinCapacity(info); v != nil {
						pr.viol(c, v, fmt.Sprintf("count=%d", k))
					}
				}
			}
			_ = pr.pe.install(pl, pr.node, s)
		case "C05":
			if !eff.Bind {
				continue
			}
			for _, w := range ws {
				rec.Count("bound_instances_checked", 1)
				if v := exactCPU(s.ShareBase, eff.CPUReq, w); v != nil {
					pr.viol(c, v, "")
					break
				}
			}
		}
	}
	if pr.id == "C06" {
		nontrivial = eff.Bind
	}
	if pr.id == "C05" {
		nontrivial = eff.Bind && len(counts) > 0
	}
	if nontrivial {
		rec.Nontrivial(c.norm())
		rec.Sample(c)
	}
}

// evalPlanner drives schedule.GetCPUPlans directly (pure; ~10^5 cases/s).
func (pr *plannerRun) evalPlanner(c *planCase) {
	rec := pr.rec
	rec.Eval()
	s := c.Node
	eff := c.Req.effective()
	if !eff.Bind || eff.CPUReq <= 0 {
		return
	}
	req := &cpumemtypes.WorkloadResourceRequest{CPUBind: true, CPURequest: eff.CPUReq, CPULimit: eff.CPULim, MemRequest: eff.MemReq, MemLimit: eff.MemLim}
	var plans []*cpumemtypes.CPUPlan
	var origin cpumemtypes.CPUMap
	if len(c.Origin) > 0 {
		origin = cpumemtypes.CPUMap(c.Origin)
	}
	if !pr.guarded(c, "schedule.GetCPUPlans", func() { plans = schedule.GetCPUPlans(s.info(), origin, s.ShareBase, s.MaxShare, req) }) {
		return
	}
	rec.Count("planner_calls", 1)
	rec.Count("plans_returned", len(plans))
	if len(plans) == 0 {
		if pr.id == "C06" {
			rec.Nontrivial(c.norm())
		}
		return
	}
	ws := make([]*cpumemtypes.WorkloadResource, 0, len(plans))
	for _, p := range plans {
		w := &cpumemtypes.WorkloadResource{CPURequest: eff.CPUReq, MemoryRequest: eff.MemReq, CPUMap: p.CPUMap, NUMANode: p.NUMANode}
		if p.NUMANode != "" {
			w.NUMAMemory = cpumemtypes.NUMAMemory{p.NUMANode: eff.MemReq}
		}
		ws = append(ws, w)
	}
	switch pr.id {
	case "C04":
		if v := jointFit(s, ws, eff.MemReq); v != nil {
			pr.viol(c, v, "schedule.GetCPUPlans (all returned plans jointly)")
		}
		if len(plans) >= 2 || len(s.NUMA) > 0 {
			rec.Nontrivial(c.norm())
		}
	case "C05":
		for _, w := range ws {
			rec.Count("bound_instances_checked", 1)
			if v := exactCPU(s.ShareBase, eff.CPUReq, w); v != nil {
				pr.viol(c, v, "schedule.GetCPUPlans")
				break
			}
		}
		rec.Nontrivial(c.norm())
	case "C06":
		rec.Nontrivial(c.norm())
	}
}

func runPlanner(t *testing.T, id string) {
	env := vkit.Load(id)
	rec := vkit.NewRec(env)
	defer rec.Finish()
	pr := &plannerRun{id: id, env: env, rec: rec, pe: newPlugEnv(t), jr: vkit.OpenJournal(env), node: "n0"}

	if env.Replay != "" {
		var c planCase
		if err := vkit.ReadReplay(env.Replay, &c); err != nil {
			// a dead-child replay wraps the case
			var w struct {
				Case planCase `json:"case"`
			}
			if err2 := vkit.ReadReplay(env.Replay, &w); err2 != nil {
				t.Fatal(err)
			}
			c = w.Case
		}
		for i := 0; i < 64; i++ { // map-order dependent: re-execute several times
			if c.Via == "planner" {
				pr.evalPlanner(&c)
			} else if c.Via == "plugin-realloc" {
				pr.evalRealloc(&c)
			} else {
				pr.evalPlugin(&c)
			}
		}
		return
	}

	r := env.Rand("planner")
	opts := genOpts{maxCores: env.Pick(8, 16), oddShares: true, numa: true}
	hostile := id == "C06"

	// C05: exhaustive request grid on nodes with enough free cores
	if id == "C05" && env.Batch == 0 {
		for _, base := range []int{100, 10, 1000} {
			step := 1
			if base == 1000 {
				step = 7 // 1000-piece grid is sampled with stride 7 (coprime with 10) in quick, fully in thorough
				if env.Thorough() {
					step = 1
				}
			}
			for k := 1; k <= 3*base; k += step {
				s := &nodeState{ShareBase: base, MaxShare: -1, CapCPU: map[string]int{}, UseCPU: map[string]int{}, CapMem: 1 << 30}
				for i := 0; i < 5; i++ {
					s.CapCPU[fmt.Sprint(i)] = base
					s.UseCPU[fmt.Sprint(i)] = 0
				}
				c := &planCase{Node: s, Req: wlRequest{Bind: true, CPUReq: float64(k) / float64(base), MemReq: 1}, Via: "planner"}
				pr.evalPlanner(c)
				rec.Count("grid_points", 1)
				if base != 1000 || k%50 == 1 {
					c2 := &planCase{Node: s, Req: c.Req, Via: "plugin", Count: 1}
					pr.evalPlugin(c2)
				}
			}
		}
		rec.Note("C05 grid block: every k/base for k=1..3*base at share bases 100 and 10 (and 1000 with stride %d) planned on a 5-core empty node, through schedule.GetCPUPlans and through CalculateDeploy", map[bool]int{false: 7, true: 1}[env.Thorough()])
	}

	nPlugin := env.Pick(6000, 60000) / env.NBatch
	nPlanner := env.Pick(200000, 3000000) / env.NBatch
	for i := 0; i < nPlanner; i++ {
		s := genNodeState(r, opts)
		q := genRequest(r, s, true, hostile || id == "C04")
		c := &planCase{Node: s, Req: q, Via: "planner"}
		if hostile && r.Intn(3) == 0 { // affinity path (what CalculateRealloc uses)
			c.Origin = randomOrigin(r, s)
		}
		pr.evalPlanner(c)
	}
	for i := 0; i < nPlugin; i++ {
		s := genNodeState(r, opts)
		bind := r.Intn(4) != 0
		q := genRequest(r, s, bind, hostile || id == "C04")
		pr.evalPlugin(&planCase{Node: s, Req: q, Via: "plugin"})
		if hostile && bind && r.Intn(2) == 0 {
			pq := q
			pr.evalRealloc(&planCase{Node: s, Place: &pq, Req: genReallocDelta(r, s, q), Via: "plugin-realloc"})
		}
		if id == "C05" && bind {
			pq := q
			pr.evalRealloc(&planCase{Node: s, Place: &pq, Req: genC05ReallocDelta(r, s), Via: "plugin-realloc"})
		}
	}
	// minimum-observation thresholds are run-level (all batches merged): MIN_OBSERVED in checks_table.py, applied by the driver
}

func randomOrigin(r *rand.Rand, s *nodeState) map[string]int {
	o := map[string]int{}
	keys := sortedKeys(s.CapCPU)
	n := 1 + r.Intn(len(keys))
	for _, k := range r.Perm(len(keys))[:n] {
		if r.Intn(3) == 0 {
			o[keys[k]] = 1 + r.Intn(s.ShareBase)
		} else {
			o[keys[k]] = s.ShareBase
		}
	}
	return o
}

// evalRealloc (C06 only): CalculateRealloc of a workload placed by the plugin (c.Place), with the
// hostile delta c.Req.
func (pr *plannerRun) evalRealloc(c *planCase) {
	ctx := context.Background()
	s := c.Node
	pl := pr.pe.plugin(s.ShareBase, s.MaxShare)
	if err := pr.pe.install(pl, pr.node, s); err != nil {
		return
	}
	var resp *plugintypes.CalculateDeployResponse
	var err error
	if !pr.guarded(c, "CalculateDeploy(count=1)", func() { resp, err = pl.CalculateDeploy(ctx, pr.node, 1, c.Place.raw()) }) || err != nil {
		return
	}
	if _, err = pl.SetNodeResourceUsage(ctx, pr.node, nil, nil, resp.WorkloadsResource, true, true); err != nil {
		return
	}
	pr.rec.Eval()
	var rr *plugintypes.CalculateReallocResponse
	if pr.guarded(c, "CalculateRealloc", func() { rr, err = pl.CalculateRealloc(ctx, pr.node, resp.WorkloadsResource[0], c.Req.raw()) }) {
		pr.rec.Count("realloc_calls", 1)
		pr.rec.Nontrivial("realloc/" + c.norm() + "/" + c.Place.norm())
		// C05: whatever a re-allocation grants to a bound workload is again an exact amount - the recorded cpu
		// request, rounded to the nearest piece, as whole cores plus at most one fractional core
		if pr.id == "C05" && err == nil && rr != nil {
			nw := &cpumemtypes.WorkloadResource{}
			if perr := nw.Parse(rr.WorkloadResource); perr == nil && len(nw.CPUMap) > 0 {
				pr.rec.Count("bound_reallocs_checked", 1)
				if c.Req.CPUReq == 0 && c.Req.CPULim != 0 {
					pr.rec.Count("bound_reallocs_checked/limit-only-delta", 1)
				}
				if v := exactCPU(s.ShareBase, nw.CPURequest, nw); v != nil {
					pr.rec.Violation("realloc/"+v.key, "re-allocated bound workload: "+v.what+fmt.Sprintf(" (delta %s)", c.Req.norm()), c)
				}
			}
		}
	}
}

// genC05ReallocDelta draws re-allocation deltas on the share-base grid, request and limit independently.
func genC05ReallocDelta(r *rand.Rand, s *nodeState) wlRequest {
	base := float64(s.ShareBase)
	g := func() float64 { return float64(r.Intn(int(2*base))-int(base/2)) / base }
	d := wlRequest{KeepBind: r.Intn(3) != 0, Bind: r.Intn(4) == 0, MemReq: int64(r.Intn(5) - 2)}
	switch r.Intn(5) {
	case 0: // limit only
		d.CPULim = float64(1+r.Intn(int(base))) / base
	case 1: // request only
		d.CPUReq = g()
	case 2: // nothing
	default:
		d.CPUReq = g()
		d.CPULim = d.CPUReq
		if r.Intn(3) == 0 {
			d.CPULim += float64(r.Intn(int(base))) / base
		}
	}
	return d
}

func genReallocDelta(r *rand.Rand, s *nodeState, placed wlRequest) wlRequest {
	base := float64(s.ShareBase)
	deltas := []float64{0, 1 / base, -1 / base, 0.001, -placed.effective().CPUReq + 0.001, 1, -0.5}
	d := wlRequest{KeepBind: r.Intn(2) == 0, Bind: r.Intn(2) == 0, CPUReq: deltas[r.Intn(len(deltas))], MemReq: int64(r.Intn(5) - 2)}
	d.CPULim = d.CPUReq
	return d
}

var _ = cpumem.NewPlugin

func TestC04(t *testing.T) { runPlanner(t, "C04") }
func TestC05(t *testing.T) { runPlanner(t, "C05") }
func TestC06(t *testing.T) { runPlanner(t, "C06") }
