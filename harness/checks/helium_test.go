package checks

// C27 — service discovery subscribers converge to the registered set; unsubscribing completes and closes.
//
// Real etcd store + real helium.Helium (push interval 1 s, the minimum) + registrations through
// store.RegisterService. One long scripted scenario per child process: phases of register / deregister changes,
// new subscribers (fast readers and slow readers that read every 1.5 intervals) and unsubscriptions in three
// styles, each followed by a quiet period after which every live reading subscriber must hold the registered set.

import (
	"context"
	"fmt"
	"sort"
	"strings"
	"sync"
	"testing"
	"time"

	"github.com/google/uuid"

	"github.com/projecteru2/core/discovery/helium"
	"github.com/projecteru2/core/types"

	"verifharness/vkit"
)

type c27Sub struct {
	name    string
	id      uuid.UUID
	ch      <-chan types.ServiceStatus
	cancel  context.CancelFunc
	slow    bool
	mu      sync.Mutex
	last    string
	lastAt  time.Time
	n       int
	closed  chan struct{} // closed when the reader saw the channel close
	stopped chan struct{} // close to make the reader stop reading (without unsubscribing)
}

type c27Step struct {
	Kind  string `json:"kind"` // register | deregister | toggle | subscribe-fast | subscribe-slow | unsubscribe
	Addr  string `json:"addr,omitempty"`
	Style string `json:"style,omitempty"` // reading-direct | stopped-cancel-then-unsubscribe | stopped-live-context
	// stalled-burst: N subscribers that never read join (a push round now lasts N x the dispatcher's patience with one
	// subscriber), a registration changes, and Victims reading subscribers unsubscribe at the same moment while the
	// dispatcher is busy with that round; then the stalled ones unsubscribe too
	N       int `json:"stalled_subscribers,omitempty"`
	Victims int `json:"unsubscribing_at_once,omitempty"`
}

type c27Phase struct {
	Steps []c27Step `json:"steps"`
}

type c27Case struct {
	Phases []c27Phase `json:"phases"`
	Log    []string   `json:"log,omitempty"`
}

func (s *c27Sub) read(interval time.Duration) {
	defer close(s.closed)
	for {
		if s.slow {
			select {
			case <-time.After(interval * 3 / 2):
			case <-s.stopped:
				return
			}
		}
		select {
		case m, ok := <-s.ch:
			if !ok {
				return
			}
			a := append([]string(nil), m.Addresses...)
			sort.Strings(a)
			s.mu.Lock()
			s.last, s.lastAt = strings.Join(a, ","), time.Now()
			s.n++
			s.mu.Unlock()
		case <-s.stopped:
			return
		}
	}
}

func TestC27(t *testing.T) {
	env := vkit.Load("C27")
	rec := vkit.NewRec(env)
	defer rec.Finish()
	s := newStores(t)
	bg := context.Background()
	r := env.Rand("c27")
	interval := time.Second
	hctx, hcancel := context.WithCancel(bg)
	defer hcancel()
	h := helium.New(hctx, types.GRPCConfig{ServiceDiscoveryPushInterval: interval}, s.etcd)

	run := func(cs *c27Case) {
		rec.Eval()
		var lmu sync.Mutex
		start := time.Now()
		logf := func(f string, a ...any) {
			lmu.Lock()
			if len(cs.Log) < 400 {
				cs.Log = append(cs.Log, fmt.Sprintf("%7.3fs ", time.Since(start).Seconds())+fmt.Sprintf(f, a...))
			}
			lmu.Unlock()
		}
		registered := map[string]func(){}
		subs := map[string]*c27Sub{}
		subN := 0
		failed := false
		viol := func(key, what string) {
			if !failed {
				failed = true
				rec.Violation("discovery/"+key, what, cs)
			}
		}
		current := func() string {
			l := []string{}
			for a := range registered {
				l = append(l, a)
			}
			sort.Strings(l)
			return strings.Join(l, ",")
		}
		subscribe := func(slow bool) {
			subN++
			ctx, cancel := context.WithCancel(bg)
			id, ch := h.Subscribe(ctx)
			sb := &c27Sub{name: fmt.Sprintf("s%d", subN), id: id, ch: ch, cancel: cancel, slow: slow, closed: make(chan struct{}), stopped: make(chan struct{})}
			subs[sb.name] = sb
			go sb.read(interval)
			logf("subscribe %s slow=%v", sb.name, slow)
			rec.Count("subscriptions", 1)
		}
		unsubscribe := func(style string) {
			names := []string{}
			for n := range subs {
				names = append(names, n)
			}
			if len(names) <= 1 {
				return
			}
			sort.Strings(names)
			sb := subs[names[r.Intn(len(names))]]
			delete(subs, sb.name)
			logf("unsubscribe %s style=%s", sb.name, style)
			rec.Count("unsubscriptions/"+style, 1)
			switch style {
			case "stopped-cancel-then-unsubscribe":
				// what calcium.WatchServiceStatus does when the caller goes away: the reader is gone, the context is
				// cancelled, then Unsubscribe is called
				close(sb.stopped)
				<-sb.closed
				time.Sleep(time.Duration(r.Intn(1500)) * time.Millisecond) // the dispatcher may now be blocked on this subscriber
				sb.cancel()
			case "stopped-live-context":
				close(sb.stopped)
				<-sb.closed
				time.Sleep(time.Duration(r.Intn(1500)) * time.Millisecond)
			}
			done := make(chan struct{})
			go func() { h.Unsubscribe(sb.id); close(done) }()
			select {
			case <-done:
			case <-time.After(10 * time.Second):
				viol("unsubscribe-never-returns/"+style, fmt.Sprintf("Unsubscribe of %s (%s) did not return within 10 s", sb.name, style))
				return
			}
			// the channel must be closed now (a reader that is still reading sees it; otherwise read it here)
			deadline := time.After(10 * time.Second)
			if style == "reading-direct" {
				select {
				case <-sb.closed:
				case <-deadline:
					viol("channel-not-closed-after-unsubscribe/"+style, fmt.Sprintf("the channel of %s was not closed within 10 s after Unsubscribe returned", sb.name))
					return
				}
			} else {
				for {
					select {
					case _, ok := <-sb.ch:
						if !ok {
							sb.cancel()
							rec.Count("channels_closed_after_unsubscribe", 1)
							return
						}
					case <-deadline:
						viol("channel-not-closed-after-unsubscribe/"+style, fmt.Sprintf("the channel of %s was not closed within 10 s after Unsubscribe returned", sb.name))
						return
					}
				}
			}
			sb.cancel()
			rec.Count("channels_closed_after_unsubscribe", 1)
		}
		// stalledBurst: see c27Step
		stalledBurst := func(st c27Step, toggle func()) {
			type stalledSub struct {
				id     uuid.UUID
				ch     <-chan types.ServiceStatus
				cancel context.CancelFunc
			}
			stalled := []stalledSub{}
			for i := 0; i < st.N; i++ {
				ctx, cancel := context.WithCancel(bg)
				id, ch := h.Subscribe(ctx)
				stalled = append(stalled, stalledSub{id, ch, cancel})
			}
			victims := []*c27Sub{}
			for i := 0; i < st.Victims; i++ {
				subscribe(false)
				sb := subs[fmt.Sprintf("s%d", subN)]
				delete(subs, sb.name)
				victims = append(victims, sb)
			}
			logf("stalled-burst: %d subscribers that do not read, %d readers about to unsubscribe", st.N, st.Victims)
			toggle()
			time.Sleep(time.Duration(100+r.Intn(200)) * time.Millisecond) // the dispatcher is in its push round
			rec.Count("stalled_bursts", 1)
			var wg sync.WaitGroup
			for _, sb := range victims {
				wg.Add(1)
				go func(sb *c27Sub) {
					defer wg.Done()
					t0 := time.Now()
					done := make(chan struct{})
					go func() { h.Unsubscribe(sb.id); close(done) }()
					select {
					case <-done:
					case <-time.After(60 * time.Second):
						viol("unsubscribe-never-returns/during-a-long-push-round", fmt.Sprintf("Unsubscribe of %s, called while the dispatcher was serving %d subscribers that do not read, did not return within 60 s", sb.name, st.N))
						return
					}
					took := time.Since(t0).Round(time.Millisecond)
					logf("unsubscribe of %s during the long round returned after %v", sb.name, took)
					select {
					case <-sb.closed:
						rec.Count("channels_closed_after_unsubscribe_during_a_long_push_round", 1)
					case <-time.After(20 * time.Second):
						viol("channel-not-closed-after-unsubscribe/during-a-long-push-round", fmt.Sprintf("Unsubscribe of %s (a reading subscriber), called while the dispatcher was serving %d subscribers that do not read, returned after %v, but the channel was not closed within 20 s after that", sb.name, st.N, took))
					}
					sb.cancel()
				}(sb)
			}
			wg.Wait()
			// the stalled ones go away calcium-style: context cancelled, then Unsubscribe; their channels are closed too
			for _, x := range stalled {
				x.cancel()
			}
			for _, x := range stalled {
				done := make(chan struct{})
				go func() { h.Unsubscribe(x.id); close(done) }()
				select {
				case <-done:
				case <-time.After(60 * time.Second):
					viol("unsubscribe-never-returns/stalled-subscriber", "Unsubscribe of a subscriber that never read did not return within 60 s")
					return
				}
				closed := false
				deadline := time.After(20 * time.Second)
				for !closed {
					select {
					case _, ok := <-x.ch:
						closed = !ok
					case <-deadline:
						viol("channel-not-closed-after-unsubscribe/stalled-subscriber", "the channel of a subscriber that never read was not closed within 20 s after Unsubscribe returned")
						return
					}
				}
				rec.Count("channels_closed_after_unsubscribe", 1)
			}
		}
		subscribe(false)
		subscribe(true)
		for pi, ph := range cs.Phases {
			if failed {
				break
			}
			var tc time.Time
			for _, st := range ph.Steps {
				time.Sleep(time.Duration(r.Intn(400)) * time.Millisecond)
				if st.Kind == "toggle" { // always an effective change
					st.Kind = "register"
					if _, ok := registered[st.Addr]; ok {
						st.Kind = "deregister"
					}
				}
				switch st.Kind {
				case "register":
					if _, ok := registered[st.Addr]; ok {
						continue
					}
					_, unreg, err := s.etcd.RegisterService(bg, st.Addr, 30*time.Second)
					if err != nil {
						logf("register %s failed: %v", st.Addr, err)
						continue
					}
					registered[st.Addr] = unreg
					tc = time.Now()
					logf("register %s", st.Addr)
					rec.Count("registration_changes", 1)
				case "deregister":
					if unreg, ok := registered[st.Addr]; ok {
						unreg()
						delete(registered, st.Addr)
						tc = time.Now()
						logf("deregister %s", st.Addr)
						rec.Count("registration_changes", 1)
					}
				case "subscribe-fast":
					subscribe(false)
				case "subscribe-slow":
					subscribe(true)
				case "unsubscribe":
					unsubscribe(st.Style)
				case "stalled-burst":
					stalledBurst(st, func() {
						if unreg, ok := registered[st.Addr]; ok {
							unreg()
							delete(registered, st.Addr)
						} else if _, unreg, err := s.etcd.RegisterService(bg, st.Addr, 30*time.Second); err == nil {
							registered[st.Addr] = unreg
						}
						tc = time.Now()
						rec.Count("registration_changes", 1)
					})
					tc = time.Now() // the readers that remain are judged from the end of the burst
				}
				if failed {
					break
				}
			}
			if failed {
				break
			}
			// quiet period, then every live reading subscriber must hold the registered set. The bound for the verdict
			// is 4 push intervals after the last change (one interval, one of slack, and the slow readers' own read
			// period of 1.5 intervals); the fast readers' latency is recorded against 1 and 2 intervals.
			if tc.IsZero() {
				tc = time.Now()
			}
			want := current()
			bound := 4 * interval
			// latency of the fast readers
			for _, sb := range subs {
				if sb.slow {
					continue
				}
				for time.Since(tc) < bound {
					sb.mu.Lock()
					ok := sb.last == want && sb.lastAt.After(tc)
					at := sb.lastAt
					sb.mu.Unlock()
					if ok {
						lat := at.Sub(tc)
						switch {
						case lat <= interval:
							rec.Count("fast_reader_converged_within_one_interval", 1)
						case lat <= 2*interval:
							rec.Count("fast_reader_converged_within_two_intervals", 1)
						default:
							rec.Count("fast_reader_converged_later", 1)
						}
						break
					}
					time.Sleep(20 * time.Millisecond)
				}
			}
			time.Sleep(time.Until(tc.Add(bound)))
			// one more full round so that slow readers have read after the bound
			time.Sleep(interval * 2)
			for _, sb := range subs {
				sb.mu.Lock()
				last, at := sb.last, sb.lastAt
				sb.mu.Unlock()
				rec.Count("convergence_checks", 1)
				if last != want || !at.After(tc) {
					kind := "fast"
					if sb.slow {
						kind = "slow"
					}
					all := []string{}
					for _, x := range subs {
						x.mu.Lock()
						all = append(all, fmt.Sprintf("%s slow=%v msgs=%d last={%s} %v after the change", x.name, x.slow, x.n, x.last, x.lastAt.Sub(tc).Round(time.Millisecond)))
						x.mu.Unlock()
					}
					sort.Strings(all)
					logf("subscribers at the violation: %v", all)
					viol("subscriber-does-not-converge/"+kind+"-reader", fmt.Sprintf("phase %d: %v after the last registration change subscriber %s (%s reader) holds {%s} (received %v after the change), registered is {%s}", pi, time.Since(tc).Round(time.Millisecond), sb.name, kind, last, at.Sub(tc).Round(time.Millisecond), want))
					break
				}
			}
			rec.Count("phases", 1)
		}
		// clean up: everything unsubscribes calcium-style, registrations go away
		for _, sb := range subs {
			sb.cancel()
			done := make(chan struct{})
			go func(sb *c27Sub) { h.Unsubscribe(sb.id); close(done) }(sb)
			select {
			case <-done:
			case <-time.After(10 * time.Second):
				viol("unsubscribe-never-returns/reading-cancel-then-unsubscribe", "Unsubscribe at the end of the scenario did not return within 10 s")
			}
		}
		for _, unreg := range registered {
			unreg()
		}
		if !failed {
			rec.Nontrivial(fmt.Sprintf("%+v", cs.Phases))
			rec.Sample(map[string]any{"phases": len(cs.Phases), "log_tail": tail(cs.Log, 5)})
		}
	}

	if env.Replay != "" {
		var cs c27Case
		if err := vkit.ReadReplay(env.Replay, &cs); err != nil {
			t.Fatal(err)
		}
		cs.Log = nil
		run(&cs)
		return
	}
	addrs := []string{"10.0.0.1:5001", "10.0.0.2:5001", "10.0.0.3:5001", "10.0.0.4:5001"}
	styles := []string{"reading-direct", "stopped-cancel-then-unsubscribe", "stopped-live-context"}
	cs := &c27Case{}
	for p := env.Pick(6, 24); p > 0; p-- {
		ph := c27Phase{}
		for k := 1 + r.Intn(3); k > 0; k-- {
			switch x := r.Intn(10); {
			case x < 4:
				ph.Steps = append(ph.Steps, c27Step{Kind: "register", Addr: addrs[r.Intn(len(addrs))]})
			case x < 7:
				ph.Steps = append(ph.Steps, c27Step{Kind: "deregister", Addr: addrs[r.Intn(len(addrs))]})
			case x < 8:
				ph.Steps = append(ph.Steps, c27Step{Kind: []string{"subscribe-fast", "subscribe-slow"}[r.Intn(2)]})
			default:
				ph.Steps = append(ph.Steps, c27Step{Kind: "subscribe-fast"}, c27Step{Kind: "unsubscribe", Style: styles[r.Intn(3)]})
			}
		}
		// every phase changes something
		ph.Steps = append(ph.Steps, c27Step{Kind: "toggle", Addr: addrs[r.Intn(len(addrs))]})
		cs.Phases = append(cs.Phases, ph)
	}
	// make sure every unsubscribe style occurs in every scenario
	for i, st := range styles {
		ph := &cs.Phases[i%len(cs.Phases)]
		ph.Steps = append([]c27Step{{Kind: "subscribe-slow"}, {Kind: "unsubscribe", Style: st}}, ph.Steps...)
	}
	// ... and a burst of subscribers that do not read, with unsubscriptions during the long push round
	for i := env.Pick(1, 4); i > 0; i-- {
		ph := &cs.Phases[(1+2*i)%len(cs.Phases)]
		ph.Steps = append([]c27Step{{Kind: "stalled-burst", Addr: addrs[r.Intn(len(addrs))], N: 12 + r.Intn(6), Victims: 2 + r.Intn(2)}}, ph.Steps...)
	}
	run(cs)
}
