package checks

// C30 — run-and-wait workloads are always cleaned up.

import (
	"context"
	"errors"
	"fmt"
	"strings"
	"testing"
	"time"

	"github.com/projecteru2/core/types"

	"verifharness/sim"
	"verifharness/vkit"
)

type lambdaCase struct {
	Topology *sim.Topology `json:"topology"`
	Count    int           `json:"count"`
	Stdin    bool          `json:"stdin"`
	Res      sim.Res       `json:"res"`
	Script   string        `json:"script"` // ok | logs-error | wait-error | attach-error
	ExitCode int64         `json:"exit_code"`
	Lines    int           `json:"lines"`
	FailOne  bool          `json:"fail_one_create,omitempty"` // one instance's engine create fails
	Messages []string      `json:"messages,omitempty"`
}

func TestC30(t *testing.T) {
	env := vkit.Load("C30")
	rec := vkit.NewRec(env)
	defer rec.Finish()
	w := newWorld(t, env, rec, false)
	ctx := context.Background()
	r := env.Rand("c30")

	run := func(lc *lambdaCase) {
		if err := w.rebuild(lc.Topology, nil); err != nil {
			rec.Inconclusive("rebuild failed: %v", err)
			return
		}
		rec.Eval()
		script := sim.LambdaScript{ExitCode: lc.ExitCode}
		for i := 0; i < lc.Lines; i++ {
			script.Stdout = append(script.Stdout, fmt.Sprintf("line %d", i))
		}
		if lc.Lines > 1 {
			script.Stderr = []string{"warn"}
		}
		switch lc.Script {
		case "logs-error":
			script.LogsErr = errors.New("memengine: logs unavailable")
		case "wait-error":
			script.WaitErr = errors.New("memengine: wait failed")
		case "attach-error":
			script.AttachErr = errors.New("memengine: attach failed")
		}
		for _, n := range lc.Topology.Nodes {
			sim.GetHost(sim.Prefix + n.Name).SetLambdaScript(func(*sim.Container) sim.LambdaScript { return script })
		}
		var plan *sim.FaultPlan
		if lc.FailOne {
			plan = &sim.FaultPlan{Kind: "fail", Index: 1, Match: "engine.VirtualizationCreate"}
		}
		seq0 := w.b.Seq()
		w.b.Arm(plan)
		logged0, committed0 := w.cl.WAL.Logged, w.cl.WAL.Committed
		opts := &types.DeployOptions{Name: "lam", Entrypoint: &types.Entrypoint{Name: "job"}, Podname: lc.Topology.Pods[0], Image: "img", Count: lc.Count,
			DeployStrategy: "AUTO", OpenStdin: lc.Stdin, Resources: lc.Res.Raw(), NodeFilter: &types.NodeFilter{Podname: lc.Topology.Pods[0]}}
		var inCh chan []byte
		if lc.Stdin {
			inCh = make(chan []byte)
			close(inCh)
		}
		ids, ch, err := w.cl.C.RunAndWait(w.cl.Ctx("lambda"), opts, inCh)
		viol := func(effect, what string) {
			lc.Messages = append(lc.Messages, eventsBrief(w.b.EventsSince(seq0))...)
			rec.Violation("run-and-wait/"+lc.Script+"/"+effect, fmt.Sprintf("%s — count=%d stdin=%v script=%s exit=%d", what, lc.Count, lc.Stdin, lc.Script, lc.ExitCode), lc)
		}
		if err != nil {
			w.b.Disarm()
			rec.Count("requests_rejected", 1)
			return
		}
		rec.Count("requests", 1)
		rec.Count("script/"+lc.Script, 1)
		last := map[string]string{}
		lastType := map[string]types.StdStreamType{}
		n := 0
		closed := false
		timeout := time.After(90 * time.Second)
	loop:
		for {
			select {
			case m, ok := <-ch:
				if !ok {
					closed = true
					break loop
				}
				n++
				last[m.WorkloadID] = string(m.Data)
				lastType[m.WorkloadID] = m.StdStreamType
				if len(lc.Messages) < 40 {
					lc.Messages = append(lc.Messages, fmt.Sprintf("%.8s: %q", m.WorkloadID, string(m.Data)))
				}
			case <-timeout:
				break loop
			}
		}
		w.cl.WaitQuiet(20 * time.Second)
		w.b.Disarm()
		if !closed {
			viol("stream-never-closed", "the output stream did not close within 90 s")
			return
		}
		rec.Count("messages", n)
		started := 0
		for _, id := range ids {
			if id != "" {
				started++
			}
		}
		rec.Count("workloads_started", started)
		snap := w.cl.Snapshot(ctx)
		if len(snap.Workloads) > 0 {
			viol("record-left", fmt.Sprintf("%d workload record(s) remain after the output ended", len(snap.Workloads)))
			return
		}
		for h, l := range snap.Containers {
			if len(l) > 0 {
				viol("container-left", fmt.Sprintf("host %s still has container(s) %v", h, l))
				return
			}
		}
		if probs := problemsOf(w.cl.CheckInvariants(ctx, snap), "usage-mismatch", "over-capacity"); len(probs) > 0 {
			viol("usage-left", probs[0].What)
			return
		}
		for _, id := range ids {
			if id == "" {
				continue
			}
			l, ok := last[id]
			if !ok {
				viol("no-message-for-workload", fmt.Sprintf("workload %.8s produced no message at all", id))
				return
			}
			if lc.Script == "ok" {
				want := fmt.Sprintf("[exitcode] %d", lc.ExitCode)
				if l != want {
					viol("exit-code-not-last", fmt.Sprintf("last message of workload %.8s is %q, want %q", id, l, want))
					return
				}
				rec.Count("exit_codes_checked", 1)
			} else if lastType[id] != types.EruError {
				if strings.HasPrefix(l, "[exitcode]") {
					viol("exit-code-after-failed-wait", fmt.Sprintf("logs/wait failed for workload %.8s but an exit code %q was reported", id, l))
					return
				}
			}
		}
		lg, cm := w.cl.WAL.Logged-logged0, w.cl.WAL.Committed-committed0
		for _, typ := range w.cl.WAL.Open() {
			if typ == "create-lambda" {
				viol("wal-entry-not-committed", fmt.Sprintf("a create-lambda WAL entry was logged but not committed (%d logged, %d committed in this call)", lg, cm))
				return
			}
		}
		rec.Count("wal_entries_logged", lg)
		rec.Count("wal_entries_committed", cm)
		if started > 0 {
			rec.Nontrivial(fmt.Sprintf("%+v", *lc))
			rec.Sample(map[string]any{"count": lc.Count, "stdin": lc.Stdin, "script": lc.Script, "exit": lc.ExitCode, "messages": tail(lc.Messages, 4)})
		}
	}

	if env.Replay != "" {
		var lc lambdaCase
		if err := vkit.ReadReplay(env.Replay, &lc); err != nil {
			t.Fatal(err)
		}
		lc.Messages = nil
		run(&lc)
		return
	}
	n := env.Pick(240, 2400) / env.NBatch
	for i := 0; i < n; i++ {
		topo := sim.GenTopology(r, true)
		lc := &lambdaCase{Topology: topo, Count: 1 + r.Intn(4), Res: sim.GenRes(r), ExitCode: int64([]int{0, 0, 1, 2, 137}[r.Intn(5)]), Lines: r.Intn(4)}
		if lc.Res.Memory > 1<<28 {
			lc.Res.Memory = 1 << 24
		}
		lc.Script = []string{"ok", "ok", "ok", "logs-error", "wait-error"}[r.Intn(5)]
		if r.Intn(4) == 0 {
			lc.Stdin, lc.Count = true, 1
			if r.Intn(3) == 0 {
				lc.Script = "attach-error"
			}
		}
		lc.FailOne = lc.Count >= 2 && r.Intn(4) == 0
		run(lc)
	}
}
