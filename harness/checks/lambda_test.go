package checks

// C30 — run-and-wait workloads are always cleaned up.

import (
	"context"
	"encoding/json"
	"errors"
	"fmt"
	"net"
	"strings"
	"sync"
	"testing"
	"time"

	"google.golang.org/grpc"
	"google.golang.org/grpc/credentials/insecure"
	"google.golang.org/grpc/test/bufconn"

	"github.com/projecteru2/core/rpc"
	pb "github.com/projecteru2/core/rpc/gen"
	resourcetypes "github.com/projecteru2/core/resource/types"
	"github.com/projecteru2/core/types"

	"verifharness/sim"
	"verifharness/vkit"
)

type lambdaCase struct {
	Topology *sim.Topology `json:"topology"`
	Count    int           `json:"count"`
	Stdin    bool          `json:"stdin"`
	Res      sim.Res       `json:"res"`
	Script   string        `json:"script"` // ok | logs-error | wait-error | attach-error
	ExitCode int64         `json:"exit_code"`
	Lines    int           `json:"lines"`
	FailOne  bool          `json:"fail_one_create,omitempty"` // one instance's engine create fails
	// ViaRPC: the request goes through the real rpc.Vibranium handler over an in-process gRPC connection (the handler
	// is the only reader of the channel all workloads of the request write to)
	ViaRPC bool `json:"via_rpc,omitempty"`
	// Mixed: only the first container's log fetch fails (script logs-error), its siblings run the ok script
	Mixed bool `json:"only_first_container_fails,omitempty"`
	Messages []string      `json:"messages,omitempty"`
}

func TestC30(t *testing.T) {
	env := vkit.Load("C30")
	rec := vkit.NewRec(env)
	defer rec.Finish()
	w := newWorld(t, env, rec, false)
	ctx := context.Background()
	r := env.Rand("c30")

	lis := bufconn.Listen(4 << 20)
	stopRPC := make(chan struct{})
	srv := grpc.NewServer()
	pb.RegisterCoreRPCServer(srv, rpc.New(w.cl.C, w.cl.Cfg, stopRPC))
	go func() { _ = srv.Serve(lis) }()
	defer srv.Stop()
	conn, err := grpc.Dial("bufnet", grpc.WithContextDialer(func(context.Context, string) (net.Conn, error) { return lis.Dial() }), grpc.WithTransportCredentials(insecure.NewCredentials()))
	if err != nil {
		t.Fatal(err)
	}
	defer conn.Close()
	cli := pb.NewCoreRPCClient(conn)

	run := func(lc *lambdaCase) {
		if err := w.rebuild(lc.Topology, nil); err != nil {
			rec.Inconclusive("rebuild failed: %v", err)
			return
		}
		rec.Eval()
		script := sim.LambdaScript{ExitCode: lc.ExitCode}
		for i := 0; i < lc.Lines; i++ {
			script.Stdout = append(script.Stdout, fmt.Sprintf("line %d", i))
		}
		if lc.Lines > 1 {
			script.Stderr = []string{"warn"}
		}
		switch lc.Script {
		case "logs-error":
			script.LogsErr = errors.New("memengine: logs unavailable")
		case "wait-error":
			script.WaitErr = errors.New("memengine: wait failed")
		case "attach-error":
			script.AttachErr = errors.New("memengine: attach failed")
		}
		okScript := script
		okScript.LogsErr, okScript.WaitErr, okScript.AttachErr = nil, nil, nil
		var kmu sync.Mutex
		kindOf := map[string]string{} // container id -> script it runs
		for _, n := range lc.Topology.Nodes {
			sim.GetHost(sim.Prefix + n.Name).SetLambdaScript(func(c *sim.Container) sim.LambdaScript {
				if !lc.Mixed {
					return script
				}
				kmu.Lock()
				defer kmu.Unlock()
				k, seen := kindOf[c.ID]
				if !seen {
					k = "ok"
					if len(kindOf) == 0 {
						k = lc.Script
					}
					kindOf[c.ID] = k
				}
				if k == "ok" {
					return okScript
				}
				return script
			})
		}
		scriptOf := func(id string) string {
			if !lc.Mixed {
				return lc.Script
			}
			kmu.Lock()
			defer kmu.Unlock()
			if k, ok := kindOf[id]; ok {
				return k
			}
			return "ok"
		}
		var plan *sim.FaultPlan
		if lc.FailOne {
			plan = &sim.FaultPlan{Kind: "fail", Index: 1, Match: "engine.VirtualizationCreate"}
		}
		seq0 := w.b.Seq()
		w.b.Arm(plan)
		logged0, committed0 := w.cl.WAL.Logged, w.cl.WAL.Committed
		opts := &types.DeployOptions{Name: "lam", Entrypoint: &types.Entrypoint{Name: "job"}, Podname: lc.Topology.Pods[0], Image: "img", Count: lc.Count,
			DeployStrategy: "AUTO", OpenStdin: lc.Stdin, Resources: lc.Res.Raw(), NodeFilter: &types.NodeFilter{Podname: lc.Topology.Pods[0]}}
		var inCh chan []byte
		if lc.Stdin {
			inCh = make(chan []byte)
			close(inCh)
		}
		var ids []string
		var ch <-chan *types.AttachWorkloadMessage
		var err error
		if lc.ViaRPC {
			// the same request through the RPC handler; the client side turns the stream back into a channel
			st, e := cli.RunAndWait(w.cl.Ctx("lambda"))
			if e == nil {
				e = st.Send(&pb.RunAndWaitOptions{DeployOptions: &pb.DeployOptions{Name: opts.Name, Entrypoint: &pb.EntrypointOptions{Name: opts.Entrypoint.Name}, Podname: opts.Podname, Image: opts.Image,
					Count: int32(opts.Count), DeployStrategy: pb.DeployOptions_AUTO, OpenStdin: opts.OpenStdin, Resources: rawResources(opts.Resources), NodeFilter: &pb.NodeFilter{}}})
			}
			if e == nil {
				e = st.CloseSend()
			}
			err = e
			if e == nil {
				out := make(chan *types.AttachWorkloadMessage)
				ch = out
				first := make(chan error, 1)
				go func() {
					defer close(out)
					got := false
					for {
						m, e := st.Recv()
						if e != nil {
							if !got {
								first <- e
							}
							return
						}
						if !got {
							got = true
							first <- nil
						}
						if m.StdStreamType == pb.StdStreamType_TYPEWORKLOADID {
							kmu.Lock()
							ids = append(ids, m.WorkloadId)
							kmu.Unlock()
							continue
						}
						out <- &types.AttachWorkloadMessage{WorkloadID: m.WorkloadId, Data: m.Data, StdStreamType: types.StdStreamType(m.StdStreamType)}
					}
				}()
				if fe := <-first; fe != nil {
					err = fe // the request was refused before anything was started
				}
			}
		} else {
			ids, ch, err = w.cl.C.RunAndWait(w.cl.Ctx("lambda"), opts, inCh)
		}
		viol := func(effect, what string) {
			lc.Messages = append(lc.Messages, eventsBrief(w.b.EventsSince(seq0))...)
			rec.Violation("run-and-wait/"+lc.Script+"/"+effect, fmt.Sprintf("%s — count=%d stdin=%v script=%s exit=%d via-rpc=%v only-first-fails=%v", what, lc.Count, lc.Stdin, lc.Script, lc.ExitCode, lc.ViaRPC, lc.Mixed), lc)
		}
		if err != nil {
			w.b.Disarm()
			rec.Count("requests_rejected", 1)
			return
		}
		rec.Count("requests", 1)
		rec.Count("script/"+lc.Script, 1)
		if lc.ViaRPC {
			rec.Count("requests_via_rpc", 1)
		}
		if lc.Mixed {
			rec.Count("requests_where_only_the_first_container_fails", 1)
		}
		last := map[string]string{}
		lastType := map[string]types.StdStreamType{}
		n := 0
		closed := false
		timeout := time.After(90 * time.Second)
	loop:
		for {
			select {
			case m, ok := <-ch:
				if !ok {
					closed = true
					break loop
				}
				n++
				last[m.WorkloadID] = string(m.Data)
				lastType[m.WorkloadID] = m.StdStreamType
				if len(lc.Messages) < 40 {
					lc.Messages = append(lc.Messages, fmt.Sprintf("%.8s: %q", m.WorkloadID, string(m.Data)))
				}
			case <-timeout:
				break loop
			}
		}
		w.cl.WaitQuiet(20 * time.Second)
		w.b.Disarm()
		if !closed {
			viol("stream-never-closed", "the output stream did not close within 90 s")
			return
		}
		rec.Count("messages", n)
		started := 0
		kmu.Lock()
		ids = append([]string(nil), ids...)
		kmu.Unlock()
		for _, id := range ids {
			if id != "" {
				started++
			}
		}
		rec.Count("workloads_started", started)
		snap := w.cl.Snapshot(ctx)
		if len(snap.Workloads) > 0 {
			viol("record-left", fmt.Sprintf("%d workload record(s) remain after the output ended", len(snap.Workloads)))
			return
		}
		for h, l := range snap.Containers {
			if len(l) > 0 {
				viol("container-left", fmt.Sprintf("host %s still has container(s) %v", h, l))
				return
			}
		}
		if probs := problemsOf(w.cl.CheckInvariants(ctx, snap), "usage-mismatch", "over-capacity"); len(probs) > 0 {
			viol("usage-left", probs[0].What)
			return
		}
		for _, id := range ids {
			if id == "" {
				continue
			}
			l, ok := last[id]
			if !ok {
				viol("no-message-for-workload", fmt.Sprintf("workload %.8s produced no message at all", id))
				return
			}
			if scriptOf(id) == "ok" {
				want := fmt.Sprintf("[exitcode] %d", lc.ExitCode)
				if l != want {
					viol("exit-code-not-last", fmt.Sprintf("last message of workload %.8s is %q, want %q", id, l, want))
					return
				}
				rec.Count("exit_codes_checked", 1)
			} else if lastType[id] != types.EruError {
				if strings.HasPrefix(l, "[exitcode]") {
					viol("exit-code-after-failed-wait", fmt.Sprintf("logs/wait failed for workload %.8s but an exit code %q was reported", id, l))
					return
				}
			}
		}
		lg, cm := w.cl.WAL.Logged-logged0, w.cl.WAL.Committed-committed0
		for _, typ := range w.cl.WAL.Open() {
			if typ == "create-lambda" {
				viol("wal-entry-not-committed", fmt.Sprintf("a create-lambda WAL entry was logged but not committed (%d logged, %d committed in this call)", lg, cm))
				return
			}
		}
		rec.Count("wal_entries_logged", lg)
		rec.Count("wal_entries_committed", cm)
		if started > 0 {
			rec.Nontrivial(fmt.Sprintf("%+v", *lc))
			rec.Sample(map[string]any{"count": lc.Count, "stdin": lc.Stdin, "script": lc.Script, "exit": lc.ExitCode, "messages": tail(lc.Messages, 4)})
		}
	}

	if env.Replay != "" {
		var probe lambdaCrashCase
		if err := vkit.ReadReplay(env.Replay, &probe); err == nil && probe.CrashAt != "" {
			c30Crash(t, env, rec, &probe)
			return
		}
		var lc lambdaCase
		if err := vkit.ReadReplay(env.Replay, &lc); err != nil {
			t.Fatal(err)
		}
		lc.Messages = nil
		run(&lc)
		return
	}
	n := env.Pick(240, 2400) / env.NBatch
	for i := 0; i < n; i++ {
		topo := sim.GenTopology(r, true)
		lc := &lambdaCase{Topology: topo, Count: 1 + r.Intn(4), Res: sim.GenRes(r), ExitCode: int64([]int{0, 0, 1, 2, 137}[r.Intn(5)]), Lines: r.Intn(4)}
		if lc.Res.Memory > 1<<28 {
			lc.Res.Memory = 1 << 24
		}
		lc.Script = []string{"ok", "ok", "ok", "logs-error", "wait-error"}[r.Intn(5)]
		if r.Intn(4) == 0 {
			lc.Stdin, lc.Count = true, 1
			if r.Intn(3) == 0 {
				lc.Script = "attach-error"
			}
		}
		lc.FailOne = lc.Count >= 2 && r.Intn(4) == 0
		lc.ViaRPC = !lc.Stdin && i%3 == 1
		if lc.Count >= 2 && !lc.Stdin && i%2 == 0 && (lc.Script == "logs-error" || lc.Script == "wait-error") {
			lc.Mixed = true
			if lc.Lines < 2 {
				lc.Lines = 2
			}
		}
		run(lc)
	}
	if env.Batch == 0 {
		c30Crash(t, env, rec, nil) // the same promise across a crash of the instance (lambda_crash_test.go)
	}
}


func rawResources(r resourcetypes.Resources) map[string][]byte {
	out := map[string][]byte{}
	for k, v := range r {
		b, _ := json.Marshal(v)
		out[k] = b
	}
	return out
}
