package checks

// C01 / C02 / C03 — reference-model monitors over strategy.Deploy.
//
// The real strategy functions are driven with a bounded-exhaustive block (tiny sizes) followed by a
// PRNG block (larger sizes); an independent oracle — which never re-implements the algorithm, only
// the relation the property states — judges every answer.

import (
	"context"
	"errors"
	"fmt"
	"math"
	"math/rand"
	"sort"
	"strings"
	"testing"

	"github.com/projecteru2/core/strategy"
	"github.com/projecteru2/core/types"

	"verifharness/vkit"
)

type stratNode struct {
	Name  string  `json:"name"`
	Cap   int     `json:"cap"`
	Count int     `json:"count"`
	Usage float64 `json:"usage"`
	Rate  float64 `json:"rate"`
}

type stratCase struct {
	Strategy string      `json:"strategy"`
	Need     int         `json:"need"`
	Limit    int         `json:"limit"`
	Nodes    []stratNode `json:"nodes"`
}

const unlimited = math.MaxInt

func (c *stratCase) norm() string {
	var sb strings.Builder
	fmt.Fprintf(&sb, "%s/%d/%d", c.Strategy, c.Need, c.Limit)
	for _, n := range c.Nodes {
		fmt.Fprintf(&sb, "|%d,%d,%g,%g", n.Cap, n.Count, n.Usage, n.Rate)
	}
	return sb.String()
}

func (c *stratCase) infos() []strategy.Info {
	infos := make([]strategy.Info, len(c.Nodes))
	for i, n := range c.Nodes {
		infos[i] = strategy.Info{Nodename: n.Name, Capacity: n.Cap, Count: n.Count, Usage: n.Usage, Rate: n.Rate}
	}
	return infos
}

func satAdd(a, b int) int {
	if a > unlimited-b {
		return unlimited
	}
	return a + b
}

func (c *stratCase) total() int {
	t := 0
	for _, n := range c.Nodes {
		t = satAdd(t, n.Cap)
	}
	return t
}

// effLimit is the number of nodes EACH/FILL must select.
func (c *stratCase) effLimit() int {
	if c.Limit == 0 {
		return len(c.Nodes)
	}
	return c.Limit
}

// feasible is the independent feasibility oracle of C02.
func (c *stratCase) feasible() bool {
	switch c.Strategy {
	case strategy.Auto:
		sum := 0
		for _, n := range c.Nodes {
			room := n.Cap
			if c.Limit > 0 {
				l := c.Limit - n.Count
				if l < 0 {
					l = 0
				}
				if l < room {
					room = l
				}
			}
			sum = satAdd(sum, room)
		}
		return sum >= c.Need
	case strategy.Global, strategy.Drained:
		return c.total() >= c.Need
	case strategy.Each:
		l := c.effLimit()
		if l < 1 || len(c.Nodes) < l {
			return false
		}
		k := 0
		for _, n := range c.Nodes {
			if n.Cap >= c.Need {
				k++
			}
		}
		return k >= l
	case strategy.Fill:
		l := c.effLimit()
		if l < 1 || len(c.Nodes) < l {
			return false
		}
		k := 0
		for _, n := range c.Nodes {
			if satAdd(n.Count, n.Cap) >= c.Need {
				k++
			}
		}
		return k >= l
	}
	return false
}

// boundaryDistance tells how far the case is from the feasibility boundary (for the C02 rule).
func (c *stratCase) nearBoundary() bool {
	for d := -2; d <= 2; d++ {
		if d == 0 {
			continue
		}
		cc := *c
		cc.Need = c.Need + d
		if cc.Need >= 1 && cc.feasible() != c.feasible() {
			return true
		}
	}
	return false
}

type stratVerdict struct {
	key  string
	what string
}

func (c *stratCase) byName() map[string]stratNode {
	m := map[string]stratNode{}
	for _, n := range c.Nodes {
		m[n.Name] = n
	}
	return m
}

// checkC01 judges a produced plan against count/capacity rules.
func (c *stratCase) checkC01(plan map[string]int) *stratVerdict {
	nodes := c.byName()
	s := strings.ToLower(c.Strategy)
	sum := 0
	for name, v := range plan {
		n, ok := nodes[name]
		if !ok {
			return &stratVerdict{s + "/unknown-node", fmt.Sprintf("plan names %q which is not a candidate", name)}
		}
		if v < 0 {
			return &stratVerdict{s + "/negative-entry", fmt.Sprintf("node %s gets %d", name, v)}
		}
		if v > n.Cap {
			return &stratVerdict{s + "/above-capacity", fmt.Sprintf("node %s gets %d > capacity %d", name, v, n.Cap)}
		}
		sum += v
	}
	switch c.Strategy {
	case strategy.Auto, strategy.Global, strategy.Drained:
		if sum != c.Need {
			return &stratVerdict{s + "/wrong-total", fmt.Sprintf("placed %d, requested %d", sum, c.Need)}
		}
		if c.Strategy == strategy.Auto && c.Limit > 0 {
			for name, v := range plan {
				if v > 0 && nodes[name].Count+v > c.Limit {
					return &stratVerdict{s + "/node-limit-exceeded", fmt.Sprintf("node %s ends with %d > limit %d", name, nodes[name].Count+v, c.Limit)}
				}
			}
		}
	case strategy.Each:
		if len(plan) != c.effLimit() {
			return &stratVerdict{s + "/wrong-node-count", fmt.Sprintf("%d nodes selected, want %d", len(plan), c.effLimit())}
		}
		for name, v := range plan {
			if v != c.Need {
				return &stratVerdict{s + "/wrong-per-node-amount", fmt.Sprintf("node %s gets %d, want %d", name, v, c.Need)}
			}
		}
	case strategy.Fill:
		if len(plan) != c.effLimit() {
			return &stratVerdict{s + "/wrong-node-count", fmt.Sprintf("%d nodes selected, want %d", len(plan), c.effLimit())}
		}
		for name, v := range plan {
			n := nodes[name]
			want := c.Need - n.Count
			if want < 0 {
				want = 0
			}
			if v != want {
				return &stratVerdict{s + "/wrong-top-up", fmt.Sprintf("node %s (count %d) gets %d, want %d", name, n.Count, v, want)}
			}
			if satAdd(n.Count, n.Cap) < c.Need {
				return &stratVerdict{s + "/selected-node-cannot-reach-level", fmt.Sprintf("node %s count %d cap %d < level %d", name, n.Count, n.Cap, c.Need)}
			}
		}
	}
	return nil
}

// checkC03 judges a produced plan against the strategy's balancing rule. bind reports whether at
// least one (i,j) pair was constrained by the rule (the non-triviality rule of C03).
func (c *stratCase) checkC03(plan map[string]int) (v *stratVerdict, bind bool) {
	s := strings.ToLower(c.Strategy)
	get := func(n stratNode) int { return plan[n.Name] }
	_, selected := map[string]bool{}, func(n stratNode) bool { _, ok := plan[n.Name]; return ok }
	switch c.Strategy {
	case strategy.Auto:
		for _, i := range c.Nodes {
			if get(i) == 0 {
				continue
			}
			for _, j := range c.Nodes {
				if j.Name == i.Name {
					continue
				}
				vj := get(j)
				if vj >= j.Cap || (c.Limit > 0 && j.Count+vj >= c.Limit) {
					continue
				}
				bind = true
				if i.Count+get(i) > j.Count+vj+1 {
					return &stratVerdict{s + "/uneven", fmt.Sprintf("node %s ends with %d instances while %s could still take one and ends with %d", i.Name, i.Count+get(i), j.Name, j.Count+vj)}, true
				}
			}
		}
	case strategy.Global:
		for _, i := range c.Nodes {
			if get(i) == 0 {
				continue
			}
			for _, j := range c.Nodes {
				if j.Name == i.Name || get(j) >= j.Cap {
					continue
				}
				bind = true
				ei := i.Usage + float64(get(i))*i.Rate
				ej := j.Usage + float64(get(j))*j.Rate
				if ei > ej+j.Rate+1e-9*(1+math.Abs(ei)+math.Abs(ej)) {
					return &stratVerdict{s + "/usage-uneven", fmt.Sprintf("node %s ends at usage %g while %s with spare capacity ends at %g (rate %g)", i.Name, ei, j.Name, ej, j.Rate)}, true
				}
			}
		}
	case strategy.Drained:
		for _, i := range c.Nodes {
			for _, j := range c.Nodes {
				if i.Cap < j.Cap && get(j) > 0 {
					bind = true
					if get(i) != i.Cap {
						return &stratVerdict{s + "/larger-node-used-before-smaller-drained", fmt.Sprintf("node %s (cap %d) got %d while smaller node %s (cap %d) got only %d", j.Name, j.Cap, get(j), i.Name, i.Cap, get(i))}, true
					}
				}
			}
		}
	case strategy.Each:
		for _, i := range c.Nodes {
			if !selected(i) {
				continue
			}
			for _, j := range c.Nodes {
				if selected(j) {
					continue
				}
				bind = true
				if i.Cap < j.Cap {
					return &stratVerdict{s + "/smaller-capacity-node-preferred", fmt.Sprintf("selected %s (cap %d) but not %s (cap %d)", i.Name, i.Cap, j.Name, j.Cap)}, true
				}
			}
		}
	case strategy.Fill:
		for _, i := range c.Nodes {
			if !selected(i) {
				continue
			}
			for _, j := range c.Nodes {
				if selected(j) || satAdd(j.Count, j.Cap) < c.Need {
					continue
				}
				bind = true
				if i.Count < j.Count {
					key := s + "/fewer-instances-node-preferred"
					if j.Cap == unlimited {
						key = s + "/unlimited-capacity-node-skipped"
					}
					return &stratVerdict{key, fmt.Sprintf("selected %s (count %d) but not qualifying %s (count %d, cap %d)", i.Name, i.Count, j.Name, j.Count, j.Cap)}, true
				}
			}
		}
	}
	return nil, bind
}

func isRefusal(err error) bool {
	return errors.Is(err, types.ErrInsufficientResource) || errors.Is(err, types.ErrInsufficientCapacity)
}

var stratNames = []string{strategy.Auto, strategy.Global, strategy.Drained, strategy.Each, strategy.Fill}

// stratEnumerate calls f for every case of the bounded-exhaustive block with at most maxN nodes.
func stratEnumerate(maxN int, shard, nshard int, f func(c *stratCase)) {
	caps := []int{1, 2, 3, unlimited}
	counts := []int{0, 1, 2}
	usages := []float64{0, 0.5}
	rates := []float64{0.125, 0.25}
	var perNode []stratNode
	for _, cp := range caps {
		for _, ct := range counts {
			for _, u := range usages {
				for _, r := range rates {
					perNode = append(perNode, stratNode{Cap: cp, Count: ct, Usage: u, Rate: r})
				}
			}
		}
	}
	idx := 0
	var rec func(nodes []stratNode, n int)
	rec = func(nodes []stratNode, n int) {
		if len(nodes) == n {
			idx++
			if idx%nshard != shard {
				return
			}
			for _, s := range stratNames {
				for need := 1; need <= 8; need++ {
					for limit := 0; limit <= n+1; limit++ {
						c := &stratCase{Strategy: s, Need: need, Limit: limit, Nodes: append([]stratNode(nil), nodes...)}
						f(c)
					}
				}
			}
			return
		}
		for _, pn := range perNode {
			pn.Name = fmt.Sprintf("n%d", len(nodes))
			rec(append(nodes, pn), n)
		}
	}
	for n := 1; n <= maxN; n++ {
		rec(nil, n)
	}
}

func stratRandom(r *rand.Rand) *stratCase {
	n := 1 + r.Intn(8)
	c := &stratCase{Strategy: stratNames[r.Intn(len(stratNames))]}
	sum := 0
	// usage is "used / capacity" of the plugins' resources: an oversold node reports more than 1
	grid := []float64{0, 0.1, 0.25, 0.25, 0.5, 0.5, 0.75, 0.9, 1, 1.6, 2.2, 3.5}
	rates := []float64{0.01, 0.05, 0.1, 0.1, 0.25, 0.5, 1}
	for i := 0; i < n; i++ {
		nd := stratNode{Name: fmt.Sprintf("n%d", i), Count: r.Intn(7), Usage: grid[r.Intn(len(grid))], Rate: rates[r.Intn(len(rates))]}
		switch k := r.Intn(10); {
		case k == 0:
			nd.Cap = unlimited
		case k == 1:
			nd.Cap = 6 + r.Intn(40)
		default:
			nd.Cap = 1 + r.Intn(5)
		}
		if nd.Cap != unlimited {
			sum += nd.Cap
		} else {
			sum += 8
		}
		c.Nodes = append(c.Nodes, nd)
	}
	// shuffle so that input order carries no meaning
	r.Shuffle(len(c.Nodes), func(i, j int) { c.Nodes[i], c.Nodes[j] = c.Nodes[j], c.Nodes[i] })
	switch c.Strategy {
	case strategy.Each, strategy.Fill:
		c.Need = 1 + r.Intn(8)
	default:
		c.Need = 1 + r.Intn(sum+2)
	}
	c.Limit = r.Intn(n + 2)
	if c.Strategy == strategy.Auto && r.Intn(2) == 0 {
		c.Limit = r.Intn(9)
	}
	return c
}

func runStrategy(t *testing.T, id string) {
	env := vkit.Load(id)
	rec := vkit.NewRec(env)
	defer rec.Finish()
	ctx := context.Background()

	eval := func(c *stratCase) {
		rec.Eval()
		infos := c.infos() // fresh copy: EACH and FILL sort their argument in place
		plan, err := strategy.Deploy(ctx, c.Strategy, c.Need, c.Limit, infos, c.total())
		produced := err == nil
		s := strings.ToLower(c.Strategy)
		if produced {
			rec.Count("plans_produced/"+s, 1)
		} else {
			rec.Count("no_plan/"+s, 1)
		}
		switch id {
		case "C01":
			if !produced {
				return
			}
			rec.Nontrivial(c.norm())
			if len(c.Nodes) > 2 {
				rec.Sample(map[string]any{"case": c, "plan": plan})
			}
			if v := c.checkC01(plan); v != nil {
				rec.Violation(v.key, v.what+fmt.Sprintf(" — %s need=%d limit=%d nodes=%+v plan=%v", c.Strategy, c.Need, c.Limit, c.Nodes, plan), c)
			}
		case "C02":
			feas := c.feasible()
			if c.nearBoundary() {
				rec.Nontrivial(c.norm())
				if len(c.Nodes) > 2 {
					rec.Sample(map[string]any{"case": c, "feasible": feas, "plan": plan, "err": fmt.Sprint(err)})
				}
			}
			if feas {
				rec.Count("feasible/"+s, 1)
			} else {
				rec.Count("infeasible/"+s, 1)
			}
			switch {
			case feas && err != nil && isRefusal(err):
				key := s + "/feasible-request-refused"
				if c.Strategy == strategy.Fill {
					for _, n := range c.Nodes {
						if n.Cap == unlimited && n.Count > 0 {
							key = s + "/unlimited-capacity-overflow"
						}
					}
				}
				rec.Violation(key, fmt.Sprintf("feasible request refused: %v — %s need=%d limit=%d nodes=%+v", err, c.Strategy, c.Need, c.Limit, c.Nodes), c)
			case feas && err != nil && !(c.Strategy == strategy.Fill && errors.Is(err, types.ErrAlreadyFilled)):
				rec.Violation(s+"/feasible-request-other-error", fmt.Sprintf("feasible request failed with %v — %+v", err, c), c)
			case !feas && err == nil:
				rec.Violation(s+"/infeasible-request-planned", fmt.Sprintf("infeasible request got plan %v — %s need=%d limit=%d nodes=%+v", plan, c.Strategy, c.Need, c.Limit, c.Nodes), c)
			case !feas && err != nil && len(plan) != 0:
				rec.Violation(s+"/refusal-with-plan", fmt.Sprintf("refused (%v) but a non-empty plan %v was returned", err, plan), c)
			case !feas && !isRefusal(err):
				rec.Violation(s+"/infeasible-request-other-error", fmt.Sprintf("infeasible request failed with a non-refusal error %v — %+v", err, c), c)
			}
		case "C03":
			if !produced {
				return
			}
			v, bind := c.checkC03(plan)
			if bind && len(c.Nodes) >= 2 {
				rec.Nontrivial(c.norm())
				rec.Count("rule_bound/"+s, 1)
				if len(c.Nodes) > 2 {
					rec.Sample(map[string]any{"case": c, "plan": plan})
				}
			}
			if v != nil {
				rec.Violation(v.key, v.what+fmt.Sprintf(" — %s need=%d limit=%d nodes=%+v plan=%v", c.Strategy, c.Need, c.Limit, c.Nodes, plan), c)
			}
		}
	}

	if env.Replay != "" {
		var c stratCase
		if err := vkit.ReadReplay(env.Replay, &c); err != nil {
			t.Fatal(err)
		}
		eval(&c)
		return
	}

	// bounded-exhaustive block
	maxN := env.Pick(2, 3)
	stratEnumerate(maxN, env.Batch, env.NBatch, eval)
	rec.Count("max:exhaustive_block_nodes", 0)
	rec.Max("max:exhaustive_block_nodes", maxN)
	// random block
	r := env.Rand("strategy")
	nrand := env.Pick(300000, 3000000) / env.NBatch
	for i := 0; i < nrand; i++ {
		eval(stratRandom(r))
	}
	rec.Count("random_cases", nrand)

	// minimum-observation thresholds are run-level (all batches merged): MIN_OBSERVED in checks_table.py, applied by the driver
	_ = sort.Strings
}

func TestC01(t *testing.T) { runStrategy(t, "C01") }
func TestC02(t *testing.T) { runStrategy(t, "C02") }
func TestC03(t *testing.T) { runStrategy(t, "C03") }
