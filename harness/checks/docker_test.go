package checks

// C31 — engine settings faithfully enforce allocated resources.
//
// Engine parameters are produced by the REAL cpumem plugin (CalculateDeploy, CalculateRealloc, CalculateRemap on
// generated nodes) and handed to the REAL docker engine (engine/docker, docker SDK client), which talks HTTP to a
// fake Docker daemon of the harness that records the decoded HostConfig.Resources of every container create and
// the UpdateConfig of every container update. The oracle compares what reached the daemon with the allocation.

import (
	"context"
	"encoding/json"
	"fmt"
	"math"
	"net/http"
	"net/http/httptest"
	"sort"
	"strconv"
	"strings"
	"sync"
	"testing"

	dockercontainer "github.com/docker/docker/api/types/container"

	"github.com/projecteru2/core/engine"
	"github.com/projecteru2/core/engine/docker"
	enginetypes "github.com/projecteru2/core/engine/types"
	cpumemtypes "github.com/projecteru2/core/resource/plugins/cpumem/types"
	plugintypes "github.com/projecteru2/core/resource/plugins/types"
	resourcetypes "github.com/projecteru2/core/resource/types"

	"verifharness/vkit"
)

type fakeDockerd struct {
	mu      sync.Mutex
	ncpu    int
	nextID  int
	created map[string]dockercontainer.Resources
	updates map[string][]dockercontainer.Resources
	reqs    int
	// failUpdates: the next n container updates are answered with HTTP 500 (a busy / restarting daemon)
	failUpdates int
}

func (d *fakeDockerd) ServeHTTP(w http.ResponseWriter, r *http.Request) {
	d.mu.Lock()
	defer d.mu.Unlock()
	d.reqs++
	p := r.URL.Path
	if i := strings.Index(p, "/v1."); i == 0 {
		if j := strings.Index(p[1:], "/"); j > 0 {
			p = p[j+1:]
		}
	}
	w.Header().Set("Content-Type", "application/json")
	w.Header().Set("API-Version", "1.32")
	switch {
	case p == "/_ping":
		_, _ = w.Write([]byte("OK"))
	case p == "/info":
		_ = json.NewEncoder(w).Encode(map[string]any{"ID": "fake", "NCPU": d.ncpu, "MemTotal": int64(64) << 30})
	case p == "/containers/create" && r.Method == http.MethodPost:
		var body struct {
			HostConfig *dockercontainer.HostConfig
		}
		if err := json.NewDecoder(r.Body).Decode(&body); err != nil || body.HostConfig == nil {
			http.Error(w, `{"message":"bad create body"}`, http.StatusBadRequest)
			return
		}
		d.nextID++
		id := fmt.Sprintf("c%063d", d.nextID)
		d.created[id] = body.HostConfig.Resources
		w.WriteHeader(http.StatusCreated)
		_ = json.NewEncoder(w).Encode(map[string]any{"Id": id, "Warnings": []string{}})
	case strings.HasPrefix(p, "/containers/") && strings.HasSuffix(p, "/update") && r.Method == http.MethodPost:
		id := strings.TrimSuffix(strings.TrimPrefix(p, "/containers/"), "/update")
		var body dockercontainer.UpdateConfig
		if err := json.NewDecoder(r.Body).Decode(&body); err != nil {
			http.Error(w, `{"message":"bad update body"}`, http.StatusBadRequest)
			return
		}
		if _, ok := d.created[id]; !ok {
			http.Error(w, `{"message":"no such container"}`, http.StatusNotFound)
			return
		}
		if d.failUpdates > 0 {
			d.failUpdates--
			http.Error(w, `{"message":"verif: daemon is busy"}`, http.StatusInternalServerError)
			return
		}
		d.updates[id] = append(d.updates[id], body.Resources)
		_ = json.NewEncoder(w).Encode(map[string]any{"Warnings": []string{}})
	default:
		http.Error(w, `{"message":"not implemented by the fake daemon: `+r.Method+" "+p+`"}`, http.StatusNotImplemented)
	}
}

type c31Case struct {
	Node     *nodeState `json:"node"`
	Request  wlRequest  `json:"request"`
	Flow     string     `json:"flow"` // create | realloc | remap
	Delta    *wlRequest `json:"realloc_delta,omitempty"`
	FailFirstUpdate bool `json:"daemon_fails_first_update,omitempty"` // the first update is answered with HTTP 500 and then repeated
	// CreateOpts: which of the other create options accompany the allocation (they must not change how it is enforced):
	// "" | runtime:<name> | raw-misc | privileged | lambda-stdin | net-host | sysctl-dns | debug-restart
	CreateOpts string `json:"other_create_options,omitempty"`
	Alloc    string     `json:"allocation,omitempty"`
	Engine   string     `json:"engine_params,omitempty"`
	Applied  string     `json:"applied_by_engine,omitempty"`
}

func cpuSetOf(s string) string {
	if s == "" {
		return ""
	}
	l := strings.Split(s, ",")
	sort.Slice(l, func(i, j int) bool { a, _ := strconv.Atoi(l[i]); b, _ := strconv.Atoi(l[j]); return a < b })
	return strings.Join(l, ",")
}

func keysOfCPUMap(m cpumemtypes.CPUMap) string {
	l := []string{}
	for k := range m {
		l = append(l, k)
	}
	sort.Slice(l, func(i, j int) bool { a, _ := strconv.Atoi(l[i]); b, _ := strconv.Atoi(l[j]); return a < b })
	return strings.Join(l, ",")
}

func TestC31(t *testing.T) {
	env := vkit.Load("C31")
	rec := vkit.NewRec(env)
	defer rec.Finish()
	pe := newPlugEnv(t)
	ctx := context.Background()
	r := env.Rand("c31")
	node := "n0"

	daemon := &fakeDockerd{ncpu: 8, created: map[string]dockercontainer.Resources{}, updates: map[string][]dockercontainer.Resources{}}
	srv := httptest.NewServer(daemon)
	defer srv.Close()
	cfg := baseConfig(100, -1)
	cfg.Docker.APIVersion = "1.32"
	cfg.Docker.NetworkMode = "host"
	endpoint := "tcp://" + strings.TrimPrefix(srv.URL, "http://")
	engines := map[int]engine.API{}
	engineFor := func(shareBase int) engine.API {
		if e, ok := engines[shareBase]; ok {
			return e
		}
		c := cfg
		c.Scheduler.ShareBase = shareBase
		e, err := docker.MakeClient(ctx, c, node, endpoint, "", "", "")
		if err != nil {
			t.Fatalf("docker.MakeClient: %v", err)
		}
		engines[shareBase] = e
		return e
	}

	// judge compares the resources that reached the daemon with the workload's allocation.
	judge := func(c *c31Case, stage string, wr *cpumemtypes.WorkloadResource, ep *cpumemtypes.EngineParams, got dockercontainer.Resources) bool {
		b, _ := json.Marshal(map[string]any{"CpusetCpus": got.CpusetCpus, "CpusetMems": got.CpusetMems, "CPUQuota": got.CPUQuota, "CPUPeriod": got.CPUPeriod, "CPUShares": got.CPUShares, "Memory": got.Memory, "MemorySwap": got.MemorySwap})
		c.Applied = string(b)
		a, _ := json.Marshal(wr)
		c.Alloc = string(a)
		e, _ := json.Marshal(ep)
		c.Engine = string(e)
		viol := func(key, what string) bool {
			kind := "unbound"
			if len(wr.CPUMap) > 0 {
				kind = "bound"
			}
			rec.Violation(fmt.Sprintf("docker/%s/%s/%s", stage, kind, key), what+fmt.Sprintf(" — %s, allocation %s, engine params %s, applied %s", stage, c.Alloc, c.Engine, c.Applied), c)
			return false
		}
		rec.Count("settings_judged/"+stage, 1)
		if len(wr.CPUMap) > 0 {
			rec.Count("bound_settings_judged", 1)
			if cpuSetOf(got.CpusetCpus) != keysOfCPUMap(wr.CPUMap) {
				return viol("cpuset-differs-from-allocated-cores", fmt.Sprintf("cpuset %q, allocated cores {%s}", got.CpusetCpus, keysOfCPUMap(wr.CPUMap)))
			}
			if got.CpusetMems != wr.NUMANode {
				return viol("cpuset-mems-differs-from-numa-node", fmt.Sprintf("cpuset.mems %q, allocated NUMA node %q", got.CpusetMems, wr.NUMANode))
			}
			if got.CPUQuota > 0 {
				return viol("bound-workload-has-a-quota", fmt.Sprintf("CPU quota %d for a bound workload (must be unrestricted)", got.CPUQuota))
			}
			// the allocated amount of a bound workload is its request (its limit equals it whenever a limit is given)
			_, frac := math.Modf(wr.CPURequest)
			wantShares := int64(1024)
			if frac > 1e-9 {
				wantShares = int64(math.Round(1024 * frac))
			}
			if got.CPUShares != wantShares {
				key := "shares-not-proportional-to-fraction"
				if wr.CPULimit == 0 {
					key += "/bound-without-cpu-limit"
				}
				return viol(key, fmt.Sprintf("CPU shares %d, the fractional core of the allocated %.4f CPU calls for %d", got.CPUShares, wr.CPURequest, wantShares))
			}
		} else {
			rec.Count("unbound_settings_judged", 1)
			period := got.CPUPeriod
			if period == 0 {
				period = 100000
			}
			if wr.CPULimit > 0 {
				want := int64(wr.CPULimit * float64(period))
				if got.CPUQuota != want {
					return viol("quota-differs-from-cpu-limit", fmt.Sprintf("CPU quota %d (period %d), the CPU limit %.4f calls for %d", got.CPUQuota, period, wr.CPULimit, want))
				}
			} else if got.CPUQuota > 0 {
				return viol("quota-on-unlimited-workload", fmt.Sprintf("CPU quota %d although the workload has no CPU limit", got.CPUQuota))
			}
			if stage == "remap" && cpuSetOf(got.CpusetCpus) != keysOfCPUMap(ep.CPUMap) {
				return viol("remap-cpuset-differs", fmt.Sprintf("cpuset %q, the remap assigned cores {%s}", got.CpusetCpus, keysOfCPUMap(ep.CPUMap)))
			}
		}
		if wr.MemoryLimit > 0 {
			if got.Memory != wr.MemoryLimit || got.MemorySwap != wr.MemoryLimit {
				return viol("memory-cap-differs-from-limit", fmt.Sprintf("memory %d / memory+swap %d, allocated memory limit %d", got.Memory, got.MemorySwap, wr.MemoryLimit))
			}
		} else if (got.Memory > 0 && got.Memory < math.MaxInt64) || (got.MemorySwap > 0 && got.MemorySwap < math.MaxInt64) {
			return viol("memory-capped-without-limit", fmt.Sprintf("memory %d / memory+swap %d although the allocation has no memory limit", got.Memory, got.MemorySwap))
		}
		return true
	}

	lastUpdate := func(id string) (dockercontainer.Resources, bool) {
		daemon.mu.Lock()
		defer daemon.mu.Unlock()
		u := daemon.updates[id]
		if len(u) == 0 {
			return dockercontainer.Resources{}, false
		}
		return u[len(u)-1], true
	}
	parseEP := func(raw plugintypes.EngineParams) *cpumemtypes.EngineParams {
		ep := &cpumemtypes.EngineParams{}
		b, _ := json.Marshal(raw)
		_ = json.Unmarshal(b, ep)
		return ep
	}

	run := func(c *c31Case) {
		rec.Eval()
		s := c.Node
		pl := pe.plugin(s.ShareBase, s.MaxShare)
		if err := pe.install(pl, node, s); err != nil {
			rec.Count("generator_invalid_state", 1)
			return
		}
		daemon.mu.Lock()
		daemon.ncpu = len(s.CapCPU)
		daemon.mu.Unlock()
		eng := engineFor(s.ShareBase)
		var resp *plugintypes.CalculateDeployResponse
		var err error
		g := guard(guardPatience, func() { resp, err = pl.CalculateDeploy(ctx, node, 1, c.Request.raw()) })
		if g.panicked || g.hung {
			rec.Skip("panic/hang in CalculateDeploy (reported under C06)")
			return
		}
		if err != nil || len(resp.EnginesParams) != 1 {
			rec.Count("deploy_refused", 1)
			return
		}
		wr := &cpumemtypes.WorkloadResource{}
		if err := wr.Parse(resp.WorkloadsResource[0]); err != nil {
			rec.Inconclusive("parse workload resource: %v", err)
			return
		}
		ep := parseEP(resp.EnginesParams[0])
		// memory below docker's minimum is refused by the engine on purpose: not part of the property
		if wr.MemoryLimit > 0 && wr.MemoryLimit < 4<<20 {
			rec.Count("memory_below_engine_minimum_skipped", 1)
			return
		}
		copts := &enginetypes.VirtualizationCreateOptions{Name: "app_web_x", Image: "img", EngineParams: resourcetypes.Resources{"cpumem": resourcetypes.RawParams(resp.EnginesParams[0])}, Labels: map[string]string{}}
		switch {
		case strings.HasPrefix(c.CreateOpts, "runtime:"):
			copts.RawArgs = []byte(fmt.Sprintf(`{"runtime":%q}`, strings.TrimPrefix(c.CreateOpts, "runtime:")))
		case c.CreateOpts == "raw-misc":
			copts.RawArgs = []byte(`{"pid_mod":"host","cap_add":["SYS_ADMIN"],"cap_drop":["MKNOD"],"storage_opt":{"size":"10G"},"ulimits":[{"Name":"nofile","Hard":1024,"Soft":512}]}`)
		case c.CreateOpts == "privileged":
			copts.Privileged, copts.User = true, "root"
		case c.CreateOpts == "lambda-stdin":
			copts.Lambda, copts.Stdin, copts.Cmd = true, true, []string{"sh"}
		case c.CreateOpts == "net-host":
			copts.Networks, copts.Publish = map[string]string{"host": ""}, []string{"80"}
		case c.CreateOpts == "sysctl-dns":
			copts.Sysctl, copts.DNS, copts.Hosts, copts.Env = map[string]string{"net.core.somaxconn": "1024"}, []string{"8.8.8.8"}, []string{"a:1.2.3.4"}, []string{"A=1"}
		case c.CreateOpts == "debug-restart":
			copts.Debug, copts.Restart, copts.LogType = true, "always", "journald"
		}
		rec.Count("create_options/"+map[bool]string{true: "plain", false: c.CreateOpts}[c.CreateOpts == ""], 1)
		created, err := eng.VirtualizationCreate(ctx, copts)
		if err != nil {
			rec.Violation("docker/create/engine-refuses-allocation", fmt.Sprintf("VirtualizationCreate refused the plugin's engine params %v: %v", resp.EnginesParams[0], err), c)
			return
		}
		daemon.mu.Lock()
		got := daemon.created[created.ID]
		daemon.mu.Unlock()
		if !judge(c, "create", wr, ep, got) {
			return
		}
		// commit the allocation so that realloc / remap see it
		if _, err := pl.SetNodeResourceUsage(ctx, node, nil, nil, []plugintypes.WorkloadResource{resp.WorkloadsResource[0]}, true, true); err != nil {
			rec.Count("commit_refused", 1)
			return
		}
		switch c.Flow {
		case "realloc":
			var rr *plugintypes.CalculateReallocResponse
			g := guard(guardPatience, func() { rr, err = pl.CalculateRealloc(ctx, node, resp.WorkloadsResource[0], c.Delta.raw()) })
			if g.panicked || g.hung {
				rec.Skip("panic/hang in CalculateRealloc (reported under C06)")
				return
			}
			if err != nil {
				rec.Count("realloc_refused", 1)
				return
			}
			nw := &cpumemtypes.WorkloadResource{}
			if err := nw.Parse(rr.WorkloadResource); err != nil {
				rec.Inconclusive("parse realloc resource: %v", err)
				return
			}
			if nw.MemoryLimit > 0 && nw.MemoryLimit < 4<<20 {
				rec.Count("memory_below_engine_minimum_skipped", 1)
				return
			}
			if c.FailFirstUpdate {
				// the daemon fails the update once: the engine must report the failure, and the repeated update
				// (core's retry, or the next remap with the same parameters) must really be applied
				daemon.mu.Lock()
				daemon.failUpdates = 1
				daemon.mu.Unlock()
				if err := eng.VirtualizationUpdateResource(ctx, created.ID, resourcetypes.Resources{"cpumem": resourcetypes.RawParams(rr.EngineParams)}); err == nil {
					rec.Violation("docker/update/failed-update-reported-as-success", "the daemon answered the update with HTTP 500 but VirtualizationUpdateResource returned success", c)
					return
				}
				rec.Count("updates_failed_by_the_daemon", 1)
				if _, ok := lastUpdate(created.ID); ok {
					rec.Inconclusive("fake daemon recorded a failed update")
					return
				}
			}
			if err := eng.VirtualizationUpdateResource(ctx, created.ID, resourcetypes.Resources{"cpumem": resourcetypes.RawParams(rr.EngineParams)}); err != nil {
				rec.Violation("docker/update/engine-refuses-allocation", fmt.Sprintf("VirtualizationUpdateResource refused the plugin's engine params %v: %v", rr.EngineParams, err), c)
				return
			}
			u, ok := lastUpdate(created.ID)
			if !ok {
				rec.Violation("docker/update/no-update-reached-the-daemon", "VirtualizationUpdateResource returned success but the daemon saw no update", c)
				return
			}
			if !judge(c, "update", nw, parseEP(rr.EngineParams), u) {
				return
			}
		case "remap":
			// another workload binds cores, then the node is remapped: the unbound workload gets the shared cores
			rm, err := pl.CalculateRemap(ctx, node, map[string]plugintypes.WorkloadResource{created.ID: resp.WorkloadsResource[0]})
			if err != nil {
				rec.Count("remap_refused", 1)
				return
			}
			raw, ok := rm.EngineParamsMap[created.ID]
			if !ok {
				if len(wr.CPUMap) == 0 {
					rec.Violation("docker/remap/unbound-workload-not-remapped", "CalculateRemap returned nothing for an unbound workload", c)
				}
				rec.Count("remap_leaves_bound_workload_alone", 1)
				return
			}
			if err := eng.VirtualizationUpdateResource(ctx, created.ID, resourcetypes.Resources{"cpumem": resourcetypes.RawParams(raw)}); err != nil {
				rec.Violation("docker/remap/engine-refuses-allocation", fmt.Sprintf("VirtualizationUpdateResource refused the remap params %v: %v", raw, err), c)
				return
			}
			u, ok := lastUpdate(created.ID)
			if !ok {
				rec.Violation("docker/remap/no-update-reached-the-daemon", "VirtualizationUpdateResource returned success but the daemon saw no update", c)
				return
			}
			if !judge(c, "remap", wr, parseEP(raw), u) {
				return
			}
		}
		rec.Nontrivial(fmt.Sprintf("%s %s %s %+v", c.Flow, s.norm(), c.Request.norm(), c.Delta))
		if r.Intn(40) == 0 {
			rec.Sample(map[string]any{"flow": c.Flow, "allocation": c.Alloc, "applied": c.Applied})
		}
	}

	if env.Replay != "" {
		var c c31Case
		if err := vkit.ReadReplay(env.Replay, &c); err != nil {
			t.Fatal(err)
		}
		run(&c)
		return
	}
	n := env.Pick(4800, 48000) / env.NBatch
	for i := 0; i < n; i++ {
		s := genNodeState(r, genOpts{maxCores: 8, numa: true, bases: []int{100, 100, 10}})
		bind := r.Intn(2) == 0
		q := genRequest(r, s, bind, false)
		// memory limits the engine accepts: 0 (unlimited) or >= 4 MiB within the node's free memory
		switch r.Intn(3) {
		case 0:
			q.MemReq, q.MemLim = 0, 0
		default:
			q.MemLim = int64(4+r.Intn(64)) << 20
			q.MemReq = q.MemLim
		}
		if !bind && r.Intn(4) == 0 {
			q.CPUReq, q.CPULim = 0, 0
		}
		c := &c31Case{Node: s, Request: q, Flow: []string{"create", "realloc", "realloc", "remap"}[r.Intn(4)]}
		if c.Flow == "realloc" {
			d := wlRequest{Bind: r.Intn(2) == 0, KeepBind: r.Intn(3) == 0}
			switch r.Intn(3) {
			case 0:
				d.CPUReq = float64(1+r.Intn(150)) / 100
				d.CPULim = d.CPUReq
			case 1:
				d.CPUReq = -float64(1+r.Intn(40)) / 100
				d.CPULim = d.CPUReq
			}
			if r.Intn(2) == 0 {
				d.MemReq = int64(r.Intn(17)-8) << 20
				d.MemLim = d.MemReq
			}
			c.Delta = &d
			c.FailFirstUpdate = r.Intn(4) == 0
		}
		if i%3 == 0 { // a third of the allocations come with other create options
			c.CreateOpts = []string{"runtime:runc", "runtime:kata-runtime", "runtime:runsc", "runtime:nvidia", "runtime:sysbox-runc", "raw-misc", "privileged", "lambda-stdin", "net-host", "sysctl-dns", "debug-restart"}[(i/3)%11]
		}
		run(c)
	}
	daemon.mu.Lock()
	rec.Count("http_requests_seen_by_the_fake_daemon", daemon.reqs)
	daemon.mu.Unlock()
}
