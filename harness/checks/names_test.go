package checks

// C24 — metadata queries are isolated per application, entrypoint and node, for every name the API accepts.
//
// Names are drawn from classes (plain, with underscores, prefixes of one another, containing '/', path elements
// '.' and '..'); a name takes part only if the REAL request validation accepts it (DeployOptions.Validate,
// Entrypoint.Validate, AddNodeOptions.Validate). Workloads are recorded through store.AddWorkload under the name
// calcium would give them (utils.MakeWorkloadName), processing markers through CreateProcessing. Every query
// (ListWorkloads with all filter combinations, ListNodeWorkloads, GetDeployStatus, WorkloadStatusStream on etcd,
// ParseWorkloadName) is compared with the harness's own name -> workload map.

import (
	"context"
	"fmt"
	"sort"
	"strings"
	"sync"
	"testing"
	"time"

	enginefactory "github.com/projecteru2/core/engine/factory"
	"github.com/projecteru2/core/types"
	"github.com/projecteru2/core/utils"

	"verifharness/sim"
	"verifharness/vkit"
)

type c24W struct {
	ID    string `json:"id"`
	App   string `json:"app"`
	Entry string `json:"entry"`
	Node  string `json:"node"`
}

type c24P struct {
	App   string `json:"app"`
	Entry string `json:"entry"`
	Node  string `json:"node"`
	Count int    `json:"count"`
}

type c24Case struct {
	Backend   string   `json:"backend"`
	Class     string   `json:"name_class"`
	Apps      []string `json:"apps"`
	Entries   []string `json:"entries"`
	Nodes     []string `json:"nodes"`
	Workloads []c24W   `json:"workloads"`
	Procs     []c24P   `json:"processing"`
	Query     string   `json:"failing_query,omitempty"`
}

var c24Classes = map[string][]string{
	"plain":                {"a", "ab", "a1", "A.b", "x-y", "x:y", "web", "job"},
	"underscore":           {"a_b", "a_", "_a", "a__b", "a_b_c"},
	"prefix-of-each-other": {"web", "web2", "web-canary", "we", "a", "ab", "a-b"},
	"contains-slash":       {"a/b", "a/b/c", "x/web"},
	"leading-slash":        {"/a", "/web"},
	"trailing-slash":       {"a/", "web/"},
	"dot-path-element":     {".", "..", "a/../b", "./a"},
}

func accepted(kind, name string) bool {
	switch kind {
	case "app":
		o := &types.DeployOptions{Name: name, Podname: "p", Image: "i", Count: 1, Entrypoint: &types.Entrypoint{Name: "e"}}
		return o.Validate() == nil
	case "entry":
		return (&types.Entrypoint{Name: name}).Validate() == nil
	case "node":
		return (&types.AddNodeOptions{Nodename: name, Podname: "p", Endpoint: sim.Prefix + "x"}).Validate() == nil
	}
	return false
}

func idSet(ws []*types.Workload) string {
	l := []string{}
	for _, w := range ws {
		l = append(l, w.ID)
	}
	sort.Strings(l)
	return strings.Join(l, ",")
}

func TestC24(t *testing.T) {
	env := vkit.Load("C24")
	rec := vkit.NewRec(env)
	defer rec.Finish()
	s := newStores(t)
	ctx := context.Background()
	c25EngineOnce.Do(func() {
		sim.RegisterEngine(sim.NewBoundary())
		enginefactory.InitEngineCache(ctx, s.cfg, nil)
	})
	sim.NewHost("x", 4, 8<<30)
	r := env.Rand("c24")

	run := func(c *c24Case) {
		s.wipe()
		rec.Eval()
		st := s.backend(c.Backend)
		b := c.Backend
		viol := func(query, what string) {
			c.Query = query
			rec.Violation(fmt.Sprintf("%s/%s/%s", b, strings.SplitN(query, "(", 2)[0], c.Class), what+" — query "+query+fmt.Sprintf(", name class %s", c.Class), c)
		}
		if _, err := st.AddPod(ctx, "p", ""); err != nil {
			rec.Inconclusive("AddPod: %v", err)
			return
		}
		for _, n := range c.Nodes {
			if _, err := st.AddNode(ctx, &types.AddNodeOptions{Nodename: n, Endpoint: sim.Prefix + "x", Podname: "p"}); err != nil {
				rec.Count("setup_refused/add-node/"+c.Class, 1)
				return
			}
		}
		for _, w := range c.Workloads {
			name := utils.MakeWorkloadName(w.App, w.Entry, "i"+w.ID)
			// the name must parse back
			a, e, id, err := utils.ParseWorkloadName(name)
			rec.Count("names_parsed", 1)
			if err != nil || a != w.App || e != w.Entry || id != "i"+w.ID {
				viol("ParseWorkloadName("+name+")", fmt.Sprintf("MakeWorkloadName(%q,%q,%q) parses back to (%q,%q,%q) err=%v", w.App, w.Entry, "i"+w.ID, a, e, id, err))
				return
			}
			if err := st.AddWorkload(ctx, &types.Workload{ID: w.ID, Name: name, Podname: "p", Nodename: w.Node}, nil); err != nil {
				rec.Count("setup_refused/add-workload/"+c.Class, 1)
				return
			}
		}
		for _, p := range c.Procs {
			if err := st.CreateProcessing(ctx, &types.Processing{Appname: p.App, Entryname: p.Entry, Nodename: p.Node, Ident: "op1"}, p.Count); err != nil {
				rec.Count("setup_refused/create-processing/"+c.Class, 1)
				return
			}
		}
		want := func(app, entry, node string) string {
			l := []string{}
			for _, w := range c.Workloads {
				if (app == "" || w.App == app) && (entry == "" || w.Entry == entry) && (node == "" || w.Node == node) {
					l = append(l, w.ID)
				}
			}
			sort.Strings(l)
			return strings.Join(l, ",")
		}
		// ListWorkloads: app only, app+entry, app+entry+node
		for _, a := range c.Apps {
			for _, e := range append([]string{""}, c.Entries...) {
				for _, n := range append([]string{""}, c.Nodes...) {
					if e == "" && n != "" {
						continue
					}
					q := fmt.Sprintf("ListWorkloads(%q,%q,%q)", a, e, n)
					ws, err := st.ListWorkloads(ctx, a, e, n, 0, nil)
					rec.Count("queries/list-workloads/"+b, 1)
					if err != nil {
						viol(q, "the listing fails: "+err.Error())
						return
					}
					if got, w := idSet(ws), want(a, e, n); got != w {
						viol(q, fmt.Sprintf("returned {%s}, the workloads created under these names are {%s}", got, w))
						return
					}
				}
			}
		}
		for _, n := range c.Nodes {
			q := fmt.Sprintf("ListNodeWorkloads(%q)", n)
			ws, err := st.ListNodeWorkloads(ctx, n, nil)
			rec.Count("queries/list-node-workloads/"+b, 1)
			if err != nil {
				viol(q, "the listing fails: "+err.Error())
				return
			}
			if got, w := idSet(ws), want("", "", n); got != w {
				viol(q, fmt.Sprintf("returned {%s}, the workloads created on this node are {%s}", got, w))
				return
			}
		}
		// GetDeployStatus: recorded workloads + in-progress counts per node, for exactly this app/entry
		for _, a := range c.Apps {
			for _, e := range c.Entries {
				q := fmt.Sprintf("GetDeployStatus(%q,%q)", a, e)
				got, err := st.GetDeployStatus(ctx, a, e)
				rec.Count("queries/deploy-status/"+b, 1)
				if err != nil {
					viol(q, "fails: "+err.Error())
					return
				}
				w := map[string]int{}
				for _, x := range c.Workloads {
					if x.App == a && x.Entry == e {
						w[x.Node]++
					}
				}
				for _, p := range c.Procs {
					if p.App == a && p.Entry == e {
						w[p.Node] += p.Count
					}
				}
				for k, v := range got {
					if v == 0 {
						delete(got, k)
					}
				}
				if fmt.Sprint(got) != fmt.Sprint(w) {
					viol(q, fmt.Sprintf("counted %v, created or in progress under these names: %v", got, w))
					return
				}
			}
		}
		// WorkloadStatusStream (etcd: miniredis has no keyspace notifications)
		if b == "etcd" && len(c.Workloads) > 0 {
			type sub struct {
				a, e, n string
				ch      chan *types.WorkloadStatus
				got     map[string]bool
			}
			sctx, cancel := context.WithCancel(ctx)
			subs := []*sub{}
			for _, a := range c.Apps {
				subs = append(subs, &sub{a: a, got: map[string]bool{}})
				for _, e := range c.Entries {
					subs = append(subs, &sub{a: a, e: e, got: map[string]bool{}})
					subs = append(subs, &sub{a: a, e: e, n: c.Nodes[0], got: map[string]bool{}})
				}
			}
			for _, sb := range subs {
				sb.ch = st.WorkloadStatusStream(sctx, sb.a, sb.e, sb.n, nil)
			}
			var gmu sync.Mutex
			done := make(chan struct{})
			for _, sb := range subs {
				go func(sb *sub) {
					for m := range sb.ch {
						if m != nil {
							gmu.Lock()
							sb.got[m.ID] = true
							gmu.Unlock()
						}
					}
					done <- struct{}{}
				}(sb)
			}
			// A watch only delivers what changes after it is established, and how long that takes is the machine's
			// business, not the property's: every workload's status is therefore CHANGED again in every round until
			// each subscription has seen everything it must see (at most 60 rounds). A subscription that drops a
			// workload drops it in every round; one that leaks a foreign workload leaks it in every round.
			complete := func() bool {
				gmu.Lock()
				defer gmu.Unlock()
				for _, sb := range subs {
					for _, id := range strings.Split(want(sb.a, sb.e, sb.n), ",") {
						if id != "" && !sb.got[id] {
							return false
						}
					}
				}
				return true
			}
			rounds := 0
			for ; rounds < 60; rounds++ {
				for _, w := range c.Workloads {
					_ = st.SetWorkloadStatus(ctx, &types.StatusMeta{ID: w.ID, Appname: w.App, Entrypoint: w.Entry, Nodename: w.Node, Running: rounds%2 == 0, Extension: []byte(fmt.Sprint(rounds))}, 0)
				}
				time.Sleep(60 * time.Millisecond)
				if rounds >= 1 && complete() {
					break
				}
			}
			rec.Count("status_stream_rounds_needed", rounds+1)
			time.Sleep(150 * time.Millisecond)
			cancel()
			for range subs {
				select {
				case <-done:
				case <-time.After(10 * time.Second):
				}
			}
			for _, sb := range subs {
				l := []string{}
				for id := range sb.got {
					l = append(l, id)
				}
				sort.Strings(l)
				q := fmt.Sprintf("WorkloadStatusStream(%q,%q,%q)", sb.a, sb.e, sb.n)
				rec.Count("queries/status-stream/etcd", 1)
				if got, w := strings.Join(l, ","), want(sb.a, sb.e, sb.n); got != w {
					viol(q, fmt.Sprintf("delivered status changes of {%s}, the workloads created under these names are {%s}", got, w))
					return
				}
			}
		}
		rec.Count("cases_judged/"+b+"/"+c.Class, 1)
		rec.Nontrivial(fmt.Sprintf("%+v", *c))
		rec.Sample(map[string]any{"backend": b, "class": c.Class, "apps": c.Apps, "entries": c.Entries, "nodes": c.Nodes, "workloads": len(c.Workloads)})
	}

	if env.Replay != "" {
		var c c24Case
		if err := vkit.ReadReplay(env.Replay, &c); err != nil {
			t.Fatal(err)
		}
		run(&c)
		return
	}
	classes := []string{}
	for k := range c24Classes {
		classes = append(classes, k)
	}
	sort.Strings(classes)
	n := env.Pick(280, 4200) / env.NBatch
	for i := 0; i < n; i++ {
		class := classes[i%len(classes)]
		pool := append(append([]string{}, c24Classes[class]...), c24Classes["plain"][:3]...)
		pick := func(kind string, k int) []string {
			out := []string{}
			seen := map[string]bool{}
			for tries := 0; len(out) < k && tries < 50; tries++ {
				nm := pool[r.Intn(len(pool))]
				if tries < 10 { // prefer the class's own names
					nm = c24Classes[class][r.Intn(len(c24Classes[class]))]
				}
				if !seen[nm] && accepted(kind, nm) {
					seen[nm] = true
					out = append(out, nm)
				} else if !accepted(kind, nm) {
					rec.Count("names_refused_by_validation/"+kind, 1)
				}
			}
			return out
		}
		c := &c24Case{Backend: []string{"etcd", "redis"}[(i/len(classes))%2], Class: class, Apps: pick("app", 2+r.Intn(2)), Entries: pick("entry", 2), Nodes: pick("node", 2)}
		if len(c.Apps) == 0 || len(c.Entries) == 0 || len(c.Nodes) == 0 {
			rec.Count("cases_without_accepted_names/"+class, 1)
			continue
		}
		for k := 3 + r.Intn(6); k > 0; k-- {
			c.Workloads = append(c.Workloads, c24W{ID: fmt.Sprintf("w%02d%x", len(c.Workloads), r.Intn(1<<16)), App: c.Apps[r.Intn(len(c.Apps))], Entry: c.Entries[r.Intn(len(c.Entries))], Node: c.Nodes[r.Intn(len(c.Nodes))]})
		}
		if class == "prefix-of-each-other" && (i/len(classes))%3 == 0 {
			// a large population under one (app, entry, node): listings that no longer fit one page of whatever size
			for k := 0; k < 140; k++ {
				c.Workloads = append(c.Workloads, c24W{ID: fmt.Sprintf("w%03d%x", len(c.Workloads), r.Intn(1<<16)), App: c.Apps[0], Entry: c.Entries[0], Node: c.Nodes[0]})
			}
			rec.Count("cases_with_a_large_population/"+c.Backend, 1)
		}
		for k := r.Intn(3); k > 0; k-- {
			c.Procs = append(c.Procs, c24P{App: c.Apps[r.Intn(len(c.Apps))], Entry: c.Entries[r.Intn(len(c.Entries))], Node: c.Nodes[r.Intn(len(c.Nodes))], Count: 1 + r.Intn(3)})
		}
		// processing idents are unique per (app, entry, node): keep one marker per triple
		seen := map[string]bool{}
		ps := c.Procs[:0]
		for _, p := range c.Procs {
			k := p.App + "\x00" + p.Entry + "\x00" + p.Node
			if !seen[k] {
				seen[k] = true
				ps = append(ps, p)
			}
		}
		c.Procs = ps
		run(c)
	}
}
