package checks

// C09 — multi-plugin capacity aggregation: real cobalt.Manager with 1–4 stub plugins whose answers are
// scripted; every input is evaluated repeatedly with permuted plugin slices and random completion
// delays, and compared with a reference aggregation and with its own other runs.

import (
	"context"
	"fmt"
	"math"
	"math/rand"
	"sort"
	"strings"
	"testing"
	"time"

	enginetypes "github.com/projecteru2/core/engine/types"
	"github.com/projecteru2/core/resource/cobalt"
	"github.com/projecteru2/core/resource/plugins"
	plugintypes "github.com/projecteru2/core/resource/plugins/types"
	resourcetypes "github.com/projecteru2/core/resource/types"

	"verifharness/vkit"
)

type stubAnswer struct {
	Capacity int     `json:"capacity"`
	Usage    float64 `json:"usage"`
	Rate     float64 `json:"rate"`
	Weight   float64 `json:"weight"`
}

type stubPlugin struct {
	name    string
	answers map[string]stubAnswer
	delay   time.Duration
	// the "caller gives up" scenario: a plugin with hold != nil announces that it is inside its call (entered) and
	// answers only when hold is closed; the others announce that their answer is ready (ready)
	hold    chan struct{}
	entered chan struct{}
	ready   chan struct{}
	ctxErr  bool // after the hold: answer with the context's error if it has one (a well-behaved slow plugin)
}

func (s *stubPlugin) Name() string { return s.name }
func (s *stubPlugin) GetNodesDeployCapacity(ctx context.Context, nodenames []string, _ plugintypes.WorkloadResourceRequest) (*plugintypes.GetNodesDeployCapacityResponse, error) {
	if s.delay > 0 {
		time.Sleep(s.delay)
	}
	if s.hold != nil {
		close(s.entered)
		<-s.hold
		if s.ctxErr && ctx.Err() != nil {
			return nil, ctx.Err()
		}
	}
	if s.ready != nil {
		defer close(s.ready)
	}
	resp := &plugintypes.GetNodesDeployCapacityResponse{NodeDeployCapacityMap: map[string]*plugintypes.NodeDeployCapacity{}}
	for _, n := range nodenames {
		if a, ok := s.answers[n]; ok && a.Capacity > 0 {
			resp.NodeDeployCapacityMap[n] = &plugintypes.NodeDeployCapacity{Capacity: a.Capacity, Usage: a.Usage, Rate: a.Rate, Weight: a.Weight}
			if resp.Total == math.MaxInt || a.Capacity == math.MaxInt {
				resp.Total = math.MaxInt
			} else {
				resp.Total += a.Capacity
			}
		}
	}
	return resp, nil
}
func (s *stubPlugin) CalculateDeploy(context.Context, string, int, plugintypes.WorkloadResourceRequest) (*plugintypes.CalculateDeployResponse, error) {
	return &plugintypes.CalculateDeployResponse{}, nil
}
func (s *stubPlugin) CalculateRealloc(context.Context, string, plugintypes.WorkloadResource, plugintypes.WorkloadResourceRequest) (*plugintypes.CalculateReallocResponse, error) {
	return &plugintypes.CalculateReallocResponse{}, nil
}
func (s *stubPlugin) CalculateRemap(context.Context, string, map[string]plugintypes.WorkloadResource) (*plugintypes.CalculateRemapResponse, error) {
	return &plugintypes.CalculateRemapResponse{}, nil
}
func (s *stubPlugin) AddNode(context.Context, string, plugintypes.NodeResourceRequest, *enginetypes.Info) (*plugintypes.AddNodeResponse, error) {
	return &plugintypes.AddNodeResponse{}, nil
}
func (s *stubPlugin) RemoveNode(context.Context, string) (*plugintypes.RemoveNodeResponse, error) {
	return &plugintypes.RemoveNodeResponse{}, nil
}
func (s *stubPlugin) SetNodeResourceCapacity(context.Context, string, plugintypes.NodeResource, plugintypes.NodeResourceRequest, bool, bool) (*plugintypes.SetNodeResourceCapacityResponse, error) {
	return &plugintypes.SetNodeResourceCapacityResponse{}, nil
}
func (s *stubPlugin) GetNodeResourceInfo(context.Context, string, []plugintypes.WorkloadResource) (*plugintypes.GetNodeResourceInfoResponse, error) {
	return &plugintypes.GetNodeResourceInfoResponse{}, nil
}
func (s *stubPlugin) SetNodeResourceInfo(context.Context, string, plugintypes.NodeResource, plugintypes.NodeResource) (*plugintypes.SetNodeResourceInfoResponse, error) {
	return &plugintypes.SetNodeResourceInfoResponse{}, nil
}
func (s *stubPlugin) SetNodeResourceUsage(context.Context, string, plugintypes.NodeResource, plugintypes.NodeResourceRequest, []plugintypes.WorkloadResource, bool, bool) (*plugintypes.SetNodeResourceUsageResponse, error) {
	return &plugintypes.SetNodeResourceUsageResponse{}, nil
}
func (s *stubPlugin) GetMostIdleNode(context.Context, []string) (*plugintypes.GetMostIdleNodeResponse, error) {
	return &plugintypes.GetMostIdleNodeResponse{}, nil
}
func (s *stubPlugin) FixNodeResource(context.Context, string, []plugintypes.WorkloadResource) (*plugintypes.GetNodeResourceInfoResponse, error) {
	return &plugintypes.GetNodeResourceInfoResponse{}, nil
}
func (s *stubPlugin) GetMetricsDescription(context.Context) (*plugintypes.GetMetricsDescriptionResponse, error) {
	return &plugintypes.GetMetricsDescriptionResponse{}, nil
}
func (s *stubPlugin) GetMetrics(context.Context, string, string) (*plugintypes.GetMetricsResponse, error) {
	return &plugintypes.GetMetricsResponse{}, nil
}

var _ plugins.Plugin = (*stubPlugin)(nil)

type mergeCase struct {
	Nodes   []string                `json:"nodes"`
	Plugins []map[string]stubAnswer `json:"plugins"` // per plugin: node -> answer (absent = not offered)
	// GiveUp: additionally, the caller's context is cancelled while plugin Slow has not answered yet (the others
	// have): the manager may fail, it must not present the answers of the others as the aggregate
	GiveUp     bool `json:"caller_gives_up,omitempty"`
	Slow       int  `json:"slow_plugin,omitempty"`
	SlowCtxErr bool `json:"slow_plugin_reports_context_error,omitempty"`
}

type mergedNode struct {
	Capacity int
	Usage    float64
	Rate     float64
}

func (c *mergeCase) reference() (map[string]mergedNode, int) {
	out := map[string]mergedNode{}
	total := 0
	for _, n := range c.Nodes {
		ok := true
		capN := math.MaxInt
		var wu, wr, w float64
		for _, p := range c.Plugins {
			a, has := p[n]
			if !has || a.Capacity <= 0 {
				ok = false
				break
			}
			if a.Capacity < capN {
				capN = a.Capacity
			}
			wu += a.Usage * a.Weight
			wr += a.Rate * a.Weight
			w += a.Weight
		}
		if !ok {
			continue
		}
		out[n] = mergedNode{Capacity: capN, Usage: wu / w, Rate: wr / w}
		if capN == math.MaxInt || total == math.MaxInt {
			total = math.MaxInt
		} else {
			total += capN
		}
	}
	return out, total
}

func fmtMerged(m map[string]mergedNode, total int) string {
	keys := make([]string, 0, len(m))
	for k := range m {
		keys = append(keys, k)
	}
	sort.Strings(keys)
	var sb strings.Builder
	for _, k := range keys {
		fmt.Fprintf(&sb, "%s{cap=%d usage=%.9g rate=%.9g} ", k, m[k].Capacity, m[k].Usage, m[k].Rate)
	}
	fmt.Fprintf(&sb, "total=%d", total)
	return sb.String()
}

func closeF(a, b float64) bool { return math.Abs(a-b) <= 1e-9*(1+math.Abs(a)+math.Abs(b)) }

func TestC09(t *testing.T) {
	env := vkit.Load("C09")
	rec := vkit.NewRec(env)
	defer rec.Finish()
	ctx := context.Background()
	r := env.Rand("c09")

	eval := func(c *mergeCase, reps int) {
		rec.Eval()
		want, wantTotal := c.reference()
		outputs := map[string]int{}
		for rep := 0; rep < reps; rep++ {
			m, _ := cobalt.New(baseConfig(100, -1))
			perm := r.Perm(len(c.Plugins))
			for _, i := range perm {
				m.AddPlugins(&stubPlugin{name: fmt.Sprintf("p%d", i), answers: c.Plugins[i], delay: time.Duration(r.Intn(3)) * 100 * time.Microsecond})
			}
			rec.SetAdd("plugin_slice_orders", fmt.Sprint(perm))
			got, total, err := m.GetNodesDeployCapacity(ctx, c.Nodes, resourcetypes.Resources{})
			if err != nil {
				rec.Inconclusive("manager returned %v", err)
				return
			}
			rec.Count("manager_calls", 1)
			gm := map[string]mergedNode{}
			for n, v := range got {
				gm[n] = mergedNode{Capacity: v.Capacity, Usage: v.Usage, Rate: v.Rate}
			}
			outputs[fmtMerged(gm, total)]++
			// reference comparison
			for n := range gm {
				if _, ok := want[n]; !ok {
					rec.Violation("merge/node-offered-although-a-plugin-refuses-it", fmt.Sprintf("node %s offered; reference %s; got %s", n, fmtMerged(want, wantTotal), fmtMerged(gm, total)), c)
					return
				}
			}
			for n, w := range want {
				g, ok := gm[n]
				if !ok {
					rec.Violation("merge/node-missing-although-every-plugin-offers-it", fmt.Sprintf("node %s missing; reference %s; got %s", n, fmtMerged(want, wantTotal), fmtMerged(gm, total)), c)
					return
				}
				if g.Capacity != w.Capacity {
					rec.Violation("merge/capacity-not-minimum", fmt.Sprintf("node %s capacity %d, want %d", n, g.Capacity, w.Capacity), c)
					return
				}
				if !closeF(g.Usage, w.Usage) || !closeF(g.Rate, w.Rate) {
					key := "merge/usage-rate-not-weighted-average"
					if len(c.Plugins) == 1 {
						key = "merge/single-plugin-values-divided-by-weight"
					} else {
						key = "merge/first-plugin-unweighted"
					}
					rec.Violation(key, fmt.Sprintf("node %s usage/rate %.9g/%.9g, weighted average is %.9g/%.9g (plugins %v)", n, g.Usage, g.Rate, w.Usage, w.Rate, c.Plugins), c)
					return
				}
			}
			if total != wantTotal {
				key := "merge/total-not-saturating-sum"
				if total < 0 {
					key = "merge/total-overflow-after-unlimited"
				}
				rec.Violation(key, fmt.Sprintf("total %d, saturating sum %d — got %s", total, wantTotal, fmtMerged(gm, total)), c)
				return
			}
		}
		if c.GiveUp && len(c.Plugins) >= 2 {
			m, _ := cobalt.New(baseConfig(100, -1))
			stubs := []*stubPlugin{}
			for i := range c.Plugins {
				sp := &stubPlugin{name: fmt.Sprintf("p%d", i), answers: c.Plugins[i]}
				if i == c.Slow%len(c.Plugins) {
					sp.hold, sp.entered, sp.ctxErr = make(chan struct{}), make(chan struct{}), c.SlowCtxErr
				} else {
					sp.ready = make(chan struct{})
				}
				stubs = append(stubs, sp)
				m.AddPlugins(sp)
			}
			type outT struct {
				got   map[string]*plugintypes.NodeDeployCapacity
				total int
				err   error
			}
			cctx, cancel := context.WithCancel(ctx)
			out := make(chan outT, 1)
			go func() {
				g, tot, err := m.GetNodesDeployCapacity(cctx, c.Nodes, resourcetypes.Resources{})
				out <- outT{g, tot, err}
			}()
			for _, sp := range stubs {
				if sp.hold != nil {
					<-sp.entered
				} else {
					<-sp.ready
				}
			}
			cancel() // the caller gives up: every plugin but one has answered, that one is still working
			var res outT
			early := false
			select {
			case res = <-out:
				early = true
			case <-time.After(20 * time.Millisecond):
			}
			for _, sp := range stubs {
				if sp.hold != nil {
					close(sp.hold)
				}
			}
			if !early {
				res = <-out
			}
			rec.Count("caller_gave_up_calls", 1)
			switch {
			case res.err != nil:
				rec.Count("caller_gave_up/manager_returned_error", 1)
			default:
				if early {
					rec.Count("caller_gave_up/manager_returned_before_last_plugin", 1)
				}
				gm := map[string]mergedNode{}
				for n, v := range res.got {
					gm[n] = mergedNode{Capacity: v.Capacity, Usage: v.Usage, Rate: v.Rate}
				}
				same := len(gm) == len(want) && res.total == wantTotal
				for n, w := range want {
					if g, ok := gm[n]; !ok || g.Capacity != w.Capacity || !closeF(g.Usage, w.Usage) || !closeF(g.Rate, w.Rate) {
						same = false
					}
				}
				if !same {
					rec.Violation("merge/caller-gave-up/partial-answers-returned-as-the-aggregate", fmt.Sprintf("the caller's context ended while plugin p%d had not answered; the manager returned no error and %s, the aggregate over all plugins is %s", c.Slow%len(c.Plugins), fmtMerged(gm, res.total), fmtMerged(want, wantTotal)), c)
					return
				}
				rec.Count("caller_gave_up/manager_returned_full_aggregate", 1)
			}
		}
		if len(outputs) > 1 {
			rec.Violation("merge/result-depends-on-answer-order", fmt.Sprintf("%d different results for the same plugin answers: %v", len(outputs), outputs), c)
		}
		if len(c.Plugins) >= 2 && len(want) >= 1 {
			rec.Nontrivial(fmt.Sprintf("%v", c))
			rec.Sample(map[string]any{"case": c, "reference": fmtMerged(want, wantTotal)})
		}
	}

	if env.Replay != "" {
		var c mergeCase
		if err := vkit.ReadReplay(env.Replay, &c); err != nil {
			t.Fatal(err)
		}
		eval(&c, 64)
		return
	}
	n := env.Pick(3000, 40000) / env.NBatch
	for i := 0; i < n; i++ {
		eval(genMergeCase(r), 16)
	}
	// minimum-observation thresholds are run-level (all batches merged): MIN_OBSERVED in checks_table.py, applied by the driver
}

func genMergeCase(r *rand.Rand) *mergeCase {
	c := &mergeCase{}
	nn := 1 + r.Intn(4)
	for i := 0; i < nn; i++ {
		c.Nodes = append(c.Nodes, fmt.Sprintf("n%d", i))
	}
	np := 1 + r.Intn(4)
	weights := []float64{1, 1, 100, 100, 2, 0.5, 10}
	for p := 0; p < np; p++ {
		w := weights[r.Intn(len(weights))]
		ans := map[string]stubAnswer{}
		for _, n := range c.Nodes {
			if r.Intn(6) == 0 {
				continue // not offered
			}
			a := stubAnswer{Weight: w, Usage: float64(r.Intn(11)) / 10, Rate: float64(1+r.Intn(10)) / 20}
			switch r.Intn(5) {
			case 0:
				a.Capacity = math.MaxInt
			default:
				a.Capacity = 1 + r.Intn(20)
			}
			ans[n] = a
		}
		c.Plugins = append(c.Plugins, ans)
	}
	if np >= 2 && r.Intn(4) == 0 {
		c.GiveUp, c.Slow, c.SlowCtxErr = true, r.Intn(np), r.Intn(2) == 0
	}
	return c
}
