package checks

// C33 — re-allocating a bound workload with keep-cpu-bind and no CPU change keeps its cores.
// C32 (plugin level) — CalculateRemap gives unbound workloads exactly the free shared cores.

import (
	"context"
	"fmt"
	"math/rand"
	"sort"
	"strconv"
	"strings"
	"testing"

	cpumemtypes "github.com/projecteru2/core/resource/plugins/cpumem/types"
	plugintypes "github.com/projecteru2/core/resource/plugins/types"

	"verifharness/vkit"
)

type placedWorkload struct {
	ID  string                       `json:"id"`
	Req wlRequest                    `json:"request"`
	Raw plugintypes.WorkloadResource `json:"resource"`
}

type reallocCase struct {
	Node     *nodeState       `json:"node"`     // node state before the re-allocation (all workloads placed)
	Workload placedWorkload   `json:"workload"` // the workload being re-allocated
	Others   []placedWorkload `json:"others"`   // the other workloads on the node (context only)
	MemDelta int64            `json:"mem_delta"`
	// AlsoBind: the request says cpu-bind: true next to keep-cpu-bind: true (a client that always states what it wants)
	AlsoBind bool `json:"request_also_says_cpu_bind,omitempty"`
	// KeepAs: how the request spells the switch - a switch that is present counts as on whatever its (non-boolean)
	// value: 0 = true, 1 = "true", 2 = "yes", 3 = 1, 4 = ""
	KeepAs int `json:"keep_cpu_bind_spelled_as,omitempty"`
}

func coreSet(m map[string]int) string {
	k := sortedKeys(m)
	return strings.Join(k, ",")
}

func wholeShareNode(r *rand.Rand, maxCores int) *nodeState {
	base := []int{100, 100, 10}[r.Intn(3)]
	n := 2 + r.Intn(maxCores-1)
	s := &nodeState{ShareBase: base, MaxShare: []int{-1, -1, 2, n}[r.Intn(4)], CapCPU: map[string]int{}, UseCPU: map[string]int{}}
	for i := 0; i < n; i++ {
		s.CapCPU[strconv.Itoa(i)] = base
		if r.Intn(8) == 0 {
			s.CapCPU[strconv.Itoa(i)] = 2 * base
		}
		s.UseCPU[strconv.Itoa(i)] = 0
	}
	s.CapMem = 10000
	if r.Intn(2) == 0 {
		s.NUMA = map[string]string{}
		split := 1 + r.Intn(n-1)
		for i := 0; i < n; i++ {
			s.NUMA[strconv.Itoa(i)] = map[bool]string{true: "0", false: "1"}[i < split]
		}
		s.CapNUMAMem = map[string]int64{"0": 5000, "1": 5000}
		if r.Intn(3) == 0 {
			s.CapNUMAMem = map[string]int64{"0": 0, "1": 0}
		}
		s.UseNUMAMem = map[string]int64{"0": 0, "1": 0}
	}
	return s
}

// stateFromInfo converts a read-back node record into a nodeState (for replay files).
func stateFromInfo(base, maxShare int, info *cpumemtypes.NodeResourceInfo) *nodeState {
	s := &nodeState{ShareBase: base, MaxShare: maxShare, CapCPU: map[string]int{}, UseCPU: map[string]int{}, UseCPUReq: info.Usage.CPU, CapMem: info.Capacity.Memory, UseMem: info.Usage.Memory}
	for c, v := range info.Capacity.CPUMap {
		s.CapCPU[c] = v
		s.UseCPU[c] = info.Usage.CPUMap[c]
	}
	if len(info.Capacity.NUMA) > 0 {
		s.NUMA = map[string]string{}
		for c, n := range info.Capacity.NUMA {
			s.NUMA[c] = n
		}
		s.CapNUMAMem, s.UseNUMAMem = map[string]int64{}, map[string]int64{}
		for n, v := range info.Capacity.NUMAMemory {
			s.CapNUMAMem[n] = v
			s.UseNUMAMem[n] = info.Usage.NUMAMemory[n]
		}
	}
	return s
}

func TestC33(t *testing.T) {
	env := vkit.Load("C33")
	rec := vkit.NewRec(env)
	defer rec.Finish()
	if env.Replay != "" {
		var probe reallocClusterCase
		if err := vkit.ReadReplay(env.Replay, &probe); err == nil && probe.Cores > 0 && probe.GrowBy > 0 {
			c33Cluster(t, env, rec, &probe)
			return
		}
	} else if env.NBatch > 1 && env.Batch == env.NBatch-1 {
		// last batch: the property at the cluster API, with another re-allocation of the workload in the queue
		c33Cluster(t, env, rec, nil)
		return
	}
	pe := newPlugEnv(t)
	jr := vkit.OpenJournal(env)
	ctx := context.Background()
	node := "n0"

	// judge re-allocates c.Workload on the installed state and applies the oracle.
	judge := func(c *reallocCase, attempts int) {
		pl := pe.plugin(c.Node.ShareBase, c.Node.MaxShare)
		w := &cpumemtypes.WorkloadResource{}
		if err := w.Parse(c.Workload.Raw); err != nil {
			rec.Inconclusive("cannot parse workload: %v", err)
			return
		}
		d := wlRequest{KeepBind: true, Bind: c.AlsoBind, MemReq: c.MemDelta, MemLim: c.MemDelta}
		if c.AlsoBind {
			rec.Count("requests_with_keep_and_bind", 1)
		}
		for a := 0; a < attempts; a++ {
			if err := pe.install(pl, node, c.Node); err != nil {
				rec.Count("generator_invalid_state", 1)
				return
			}
			rec.Eval()
			var resp *plugintypes.CalculateReallocResponse
			var err error
			jr.Put(c)
			req := d.raw()
			if c.KeepAs > 0 {
				req["keep-cpu-bind"] = []any{true, "true", "yes", 1, ""}[c.KeepAs%5]
				rec.Count("requests_with_the_switch_spelled_as_a_non_boolean", 1)
			}
			g := guard(guardPatience, func() { resp, err = pl.CalculateRealloc(ctx, node, c.Workload.Raw, req) })
			jr.Clear()
			if g.panicked || g.hung {
				rec.Skip("panic/hang in CalculateRealloc (reported under C06)")
				if g.hung {
					dieAfterHang(rec)
				}
				return
			}
			if err != nil {
				rec.Count("realloc_refused", 1)
				return
			}
			nw := &cpumemtypes.WorkloadResource{}
			if err := nw.Parse(resp.WorkloadResource); err != nil {
				rec.Inconclusive("cannot parse realloc response: %v", err)
				return
			}
			rec.Count("reallocs_judged", 1)
			if len(c.Node.NUMA) > 0 {
				rec.Count("reallocs_judged_on_numa_node", 1)
			}
			rec.Nontrivial(c.Node.norm() + "/" + coreSet(w.CPUMap) + "/" + fmt.Sprint(c.MemDelta))
			rec.Sample(map[string]any{"node": c.Node.norm(), "workload_cpu_map": w.CPUMap, "numa_node": w.NUMANode, "mem_delta": c.MemDelta, "new_cpu_map": nw.CPUMap, "new_numa_node": nw.NUMANode})
			if coreSet(w.CPUMap) != coreSet(nw.CPUMap) {
				key := "realloc/keep-bind/core-moved"
				if len(w.CPUMap) == 1 {
					key = "realloc/keep-bind/single-core-workload-moved"
				}
				if len(c.Node.NUMA) > 0 && w.NUMANode != nw.NUMANode {
					key = "realloc/keep-bind/numa-node-changed"
				}
				rec.Violation(key, fmt.Sprintf("workload on cores {%s} (numa %q, %v) re-allocated with keep-cpu-bind, cpu delta 0, memory delta %d lands on {%s} (numa %q, %v) — node %s", coreSet(w.CPUMap), w.NUMANode, w.CPUMap, c.MemDelta, coreSet(nw.CPUMap), nw.NUMANode, nw.CPUMap, c.Node.norm()), c)
				return
			}
			if w.NUMANode != nw.NUMANode {
				rec.Violation("realloc/keep-bind/numa-node-changed", fmt.Sprintf("workload on NUMA node %q (cores {%s}) re-allocated without change is recorded on NUMA node %q — node %s", w.NUMANode, coreSet(w.CPUMap), nw.NUMANode, c.Node.norm()), c)
				return
			}
		}
	}

	if env.Replay != "" {
		var c reallocCase
		if err := vkit.ReadReplay(env.Replay, &c); err != nil {
			t.Fatal(err)
		}
		judge(&c, 64)
		return
	}

	r := env.Rand("c33")
	nodes := env.Pick(400, 6000) / env.NBatch
	for i := 0; i < nodes; i++ {
		s := wholeShareNode(r, env.Pick(8, 12))
		pl := pe.plugin(s.ShareBase, s.MaxShare)
		if err := pe.install(pl, node, s); err != nil {
			rec.Count("generator_invalid_state", 1)
			continue
		}
		// place 1..6 bound workloads through the plugin
		var placed []placedWorkload
		nw := 1 + r.Intn(6)
		for j := 0; j < nw; j++ {
			q := wlRequest{Bind: true}
			switch r.Intn(4) {
			case 0:
				q.CPUReq = float64(1+r.Intn(s.ShareBase-1)) / float64(s.ShareBase)
			case 1:
				q.CPUReq = float64(1 + r.Intn(2))
			default:
				q.CPUReq = float64(r.Intn(3)) + float64(1+r.Intn(s.ShareBase-1))/float64(s.ShareBase)
			}
			q.CPULim = q.CPUReq
			q.MemReq = int64(r.Intn(4)) * 100
			q.MemLim = q.MemReq
			var resp *plugintypes.CalculateDeployResponse
			var err error
			g := guard(guardPatience, func() { resp, err = pl.CalculateDeploy(ctx, node, 1, q.raw()) })
			if g.panicked || g.hung {
				rec.Skip("panic/hang in CalculateDeploy (reported under C06)")
				if g.hung {
					dieAfterHang(rec)
				}
				break
			}
			if err != nil {
				continue
			}
			if _, err := pl.SetNodeResourceUsage(ctx, node, nil, nil, resp.WorkloadsResource, true, true); err != nil {
				continue
			}
			placed = append(placed, placedWorkload{ID: fmt.Sprintf("w%d", j), Req: q, Raw: resp.WorkloadsResource[0]})
		}
		info, err := readInfo(pl, node)
		if err != nil {
			continue
		}
		cur := stateFromInfo(s.ShareBase, s.MaxShare, info)
		for k, w := range placed {
			for _, md := range []int64{0, 100, -100} {
				if md < 0 && w.Req.MemReq < 100 {
					continue
				}
				others := append(append([]placedWorkload{}, placed[:k]...), placed[k+1:]...)
				judge(&reallocCase{Node: cur, Workload: w, Others: others, MemDelta: md, AlsoBind: (k+int(md/100))%2 != 0, KeepAs: map[bool]int{false: 0, true: 1 + (k+len(placed))%4}[(k+int(md/100)+3)%3 == 0]}, 1)
			}
		}
	}
	// minimum-observation thresholds are run-level (all batches merged): MIN_OBSERVED in checks_table.py, applied by the driver
	_ = sort.Strings
}
