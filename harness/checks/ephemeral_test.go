package checks

// C26 — ephemeral registrations are exclusive and owner-safe (etcd and redis stores).
//
// Registrants are separate store objects (separate core processes would be) using the real StartEphemeral /
// RegisterService on one key. Lapses are injected by revoking the key's lease (etcd) or advancing the virtual
// clock past the TTL (redis). A registrant "believes" from a successful registration until its expiry channel
// closes or it calls its stop function.

import (
	"context"
	"fmt"
	"sync"
	"testing"
	"time"

	clientv3 "go.etcd.io/etcd/client/v3"

	"github.com/projecteru2/core/selfmon"
	"github.com/projecteru2/core/store"
	"github.com/projecteru2/core/store/etcdv3"
	redisstore "github.com/projecteru2/core/store/redis"

	"verifharness/vkit"
)

type c26Case struct {
	Backend  string `json:"backend"`
	Entry    string `json:"entry"`    // ephemeral | service | selfmon-active
	Scenario string `json:"scenario"` // exclusive | lapse-alone | lapse-then-registrant | lapse-then-foreign-key
	BWhen    string `json:"second_registration"` // before-next-heartbeat | after-next-heartbeat (of the lapsed registrant)
	BDelayMs int    `json:"second_registrant_delay_ms"`
	TickK    int    `json:"lapse_after_tick"`
	ExclMs   int    `json:"exclusive_second_registration_delay_ms"`
	Key      string `json:"key"`
	Log      []string `json:"log,omitempty"`
}

type registrant struct {
	name   string
	expiry <-chan struct{}
	stop   func()
}

func (r *registrant) believes() bool {
	if r == nil || r.expiry == nil {
		return false
	}
	select {
	case <-r.expiry:
		return false
	default:
		return true
	}
}

func TestC26(t *testing.T) {
	env := vkit.Load("C26")
	rec := vkit.NewRec(env)
	defer rec.Finish()
	s := newStores(t)
	bg := context.Background()
	r := env.Rand("c26")
	hb := 2 * time.Second
	bound := 2 * hb
	// three independent store objects per back end = three registrants
	etcds := []store.Store{s.etcd}
	rediss := []store.Store{s.redis}
	for i := 0; i < 2; i++ {
		e, err := etcdv3.New(s.cfg, t)
		if err != nil {
			t.Fatal(err)
		}
		rd, err := redisstore.New(s.cfg, t)
		if err != nil {
			t.Fatal(err)
		}
		etcds, rediss = append(etcds, e), append(rediss, rd)
	}
	var redisMu sync.Mutex // redis cases move one shared virtual clock: one at a time

	run := func(c *c26Case) {
		b := c.Backend
		sts := etcds
		if b == "redis" {
			sts = rediss
			redisMu.Lock()
			defer redisMu.Unlock()
		}
		var mu sync.Mutex
		logf := func(f string, a ...any) {
			mu.Lock()
			c.Log = append(c.Log, fmt.Sprintf("%6.3fs ", float64(time.Now().UnixNano()%1e11)/1e9)+fmt.Sprintf(f, a...))
			mu.Unlock()
		}
		viol := func(key, what string) {
			rec.Violation(b+"/"+key, what+fmt.Sprintf(" — %s via %s, scenario %s", b, c.Entry, c.Scenario), c)
		}
		path := c.Key
		register := func(i int, name string) (*registrant, error) {
			var exp <-chan struct{}
			var stop func()
			var err error
			switch c.Entry {
			case "service":
				exp, stop, err = sts[i].RegisterService(bg, c.Key, hb)
			default:
				exp, stop, err = sts[i].StartEphemeral(bg, path, hb)
			}
			logf("%s registers -> %v", name, err)
			if err != nil {
				return nil, err
			}
			return &registrant{name: name, expiry: exp, stop: stop}, nil
		}
		if c.Entry == "service" {
			path = "/services/" + c.Key
		}
		// raw facts about the key
		type fact struct {
			exists bool
			lease  int64
			value  string
			ttl    time.Duration
		}
		read := func() fact {
			if b == "redis" {
				if !s.mr.Exists(path) {
					return fact{}
				}
				v, _ := s.mr.Get(path)
				return fact{exists: true, value: v, ttl: s.mr.TTL(path)}
			}
			resp, err := s.cli.Get(bg, path)
			if err != nil || len(resp.Kvs) == 0 {
				return fact{}
			}
			return fact{exists: true, lease: resp.Kvs[0].Lease, value: string(resp.Kvs[0].Value)}
		}
		lapse := func() bool {
			if b == "redis" {
				s.mr.FastForward(hb + time.Second)
				return !s.mr.Exists(path)
			}
			f := read()
			if !f.exists || f.lease == 0 {
				return false
			}
			_, err := s.cli.Revoke(bg, clientv3.LeaseID(f.lease))
			return err == nil
		}
		rec.Eval()
		regAt := time.Now()
		a, err := register(0, "A")
		if err != nil {
			viol("registration-on-free-key-fails", "the first registration on a free key failed: "+err.Error())
			return
		}
		defer func() {
			if a.stop != nil {
				a.stop()
			}
		}()
		rec.Count("registrations/"+b, 1)
		switch c.Scenario {
		case "exclusive":
			// no lapse: a second registration must be refused while A believes; after A deregisters the key is free
			time.Sleep(time.Duration(c.ExclMs) * time.Millisecond)
			if b2, err := register(1, "B"); err == nil {
				if a.believes() {
					viol("double-registration", "a second registrant registered while the first one holds an un-lapsed registration")
				}
				b2.stop()
				return
			}
			rec.Count("second_registration_refused/"+b, 1)
			if !a.believes() {
				rec.Count("spurious_notifications/"+b, 1)
			}
			a.stop()
			a.stop = nil
			if f := read(); f.exists {
				viol("key-left-after-deregistration", "the key still exists after its owner deregistered")
				return
			}
			c2, err := register(2, "C")
			if err != nil {
				viol("registration-after-deregistration-fails", "registering after the owner deregistered failed: "+err.Error())
				return
			}
			rec.Count("re_registrations_after_stop/"+b, 1)
			c2.stop()
		case "lapse-alone":
			if !lapse() {
				rec.Inconclusive("%s: could not make the registration lapse", b)
				return
			}
			rec.Count("lapses/"+b, 1)
			t0 := time.Now()
			select {
			case <-a.expiry:
				rec.Count("lapsed_registrants_notified/"+b, 1)
				rec.Max("max:notification_latency_ms/"+b, int(time.Since(t0).Milliseconds()))
			case <-time.After(bound):
				viol("lapse-not-notified/nobody-re-registered", fmt.Sprintf("%v after its registration lapsed the registrant has not been notified (nobody re-registered)", bound))
			}
		case "lapse-then-registrant", "lapse-then-foreign-key":
			// the lapse is placed 60 ms after one of the registrant's heartbeat ticks (period heartbeat/3, first tick one
			// period after registration), so that the second registration falls clearly before (+100 ms) or clearly
			// after (+period+150 ms) the lapsed registrant's next tick
			period := hb / 3
			k := c.TickK
			time.Sleep(time.Until(regAt.Add(time.Duration(k)*period + 60*time.Millisecond)))
			if !lapse() {
				rec.Inconclusive("%s: could not make the registration lapse", b)
				return
			}
			rec.Count("lapses/"+b, 1)
			t0 := time.Now()
			c.BDelayMs = 100
			if c.BWhen == "after-next-heartbeat" {
				c.BDelayMs = int((period + 150*time.Millisecond) / time.Millisecond)
			}
			time.Sleep(time.Duration(c.BDelayMs) * time.Millisecond)
			if c.BWhen == "after-next-heartbeat" && b == "etcd" && !a.believes() {
				rec.Count("lapsed_registrant_already_notified_when_second_registers/"+b, 1)
			}
			var bb *registrant
			foreignTTL := 1000 * time.Second
			if c.Scenario == "lapse-then-registrant" {
				if bb, err = register(1, "B"); err != nil {
					// A's key is gone, nobody else registered: B must get it, unless A re-created it (it must not)
					viol("registration-after-lapse-fails", "registering after the previous registration lapsed failed: "+err.Error())
					return
				}
				defer bb.stop()
			} else {
				// a registration created by somebody else through other means (distinct value, long lifetime)
				if b == "redis" {
					if s.mr.Exists(path) {
						rec.Inconclusive("redis: key re-appeared before the foreign registration")
						return
					}
					_ = s.mr.Set(path, "somebody-else")
					s.mr.SetTTL(path, foreignTTL)
				} else {
					l, err := s.cli.Grant(bg, int64(foreignTTL/time.Second))
					if err != nil {
						rec.Inconclusive("grant: %v", err)
						return
					}
					tx, err := s.cli.Txn(bg).If(clientv3.Compare(clientv3.Version(path), "=", 0)).Then(clientv3.OpPut(path, "somebody-else", clientv3.WithLease(l.ID))).Commit()
					if err != nil || !tx.Succeeded {
						rec.Inconclusive("etcd: key re-appeared before the foreign registration")
						return
					}
					defer s.cli.Revoke(bg, l.ID) //nolint
				}
				logf("foreign registration written")
			}
			f0 := read()
			rec.Count("re_registrations_after_lapse/"+b, 1)
			// (1) the lapsed registrant is notified within the bound; until then two believers coexist
			notified := false
			select {
			case <-a.expiry:
				notified = true
				rec.Count("lapsed_registrants_notified/"+b, 1)
				rec.Max("max:notification_latency_ms/"+b, int(time.Since(t0).Milliseconds()))
			case <-time.After(time.Until(t0.Add(bound))):
			}
			logf("A notified: %v", notified)
			// (2) whatever A did meanwhile (heartbeats, cleanup), the new registration is untouched
			f1 := read()
			judgeForeign := func(when string, f fact) bool {
				switch {
				case !f.exists:
					viol("foreign-registration-deleted/"+c.BWhen+"/"+when, "the registration created by somebody else after the lapse no longer exists ("+when+")")
					return false
				case f.value != f0.value || f.lease != f0.lease:
					viol("foreign-registration-replaced/"+c.BWhen+"/"+when, fmt.Sprintf("the registration created by somebody else was replaced (%s): value %q lease %x -> value %q lease %x", when, f0.value, f0.lease, f.value, f.lease))
					return false
				case b == "redis" && c.Scenario == "lapse-then-foreign-key" && f.ttl != foreignTTL:
					viol("foreign-registration-refreshed/"+c.BWhen+"/"+when, fmt.Sprintf("the lifetime of the registration created by somebody else was changed from %v to %v (%s)", foreignTTL, f.ttl, when))
					return false
				}
				return true
			}
			if !judgeForeign("while-the-lapsed-registrant-keeps-heartbeating", f1) {
				return
			}
			if !notified {
				viol("lapse-not-notified/somebody-re-registered-"+c.BWhen, fmt.Sprintf("%v after its registration lapsed (somebody else holds the key since %d ms after the lapse, %s of the lapsed registrant) the registrant has not been notified: two believers", bound, c.BDelayMs, c.BWhen))
			}
			// (3) A deregisters (what selfmon / the service registration do on notification and on shutdown)
			a.stop()
			a.stop = nil
			time.Sleep(50 * time.Millisecond)
			if !judgeForeign("after-the-lapsed-registrant-deregistered", read()) {
				return
			}
			rec.Count("owner_safety_checks/"+b, 1)
			// (4) the key is still taken: a third registrant must be refused while B believes
			if bb != nil && bb.believes() {
				if c3, err := register(2, "C"); err == nil {
					viol("double-registration", "a third registrant registered while the second one holds an un-lapsed registration")
					c3.stop()
					return
				}
				rec.Count("second_registration_refused/"+b, 1)
			}
		}
		rec.Nontrivial(fmt.Sprintf("%s %s %s %s", b, c.Entry, c.Scenario, c.BWhen))
		rec.Sample(map[string]any{"backend": b, "entry": c.Entry, "scenario": c.Scenario, "second_registration": c.BWhen, "log": tail(c.Log, 4)})
	}

	if env.Replay != "" {
		var probe c26WatchersCase
		if err := vkit.ReadReplay(env.Replay, &probe); err == nil && probe.RevokeWait > 0 {
			c26Watchers(t, env, rec) // the scenario is re-run as a whole (its rounds are drawn from the seed)
			return
		}
		var c c26Case
		if err := vkit.ReadReplay(env.Replay, &c); err != nil {
			t.Fatal(err)
		}
		c.Log = nil
		c.Key += "r"
		run(&c)
		return
	}
	scen := []string{"exclusive", "lapse-alone", "lapse-then-registrant", "lapse-then-foreign-key"}
	entries := []string{"ephemeral", "service", "selfmon-active"}
	n := env.Pick(48, 480) / env.NBatch
	var wg sync.WaitGroup
	sem := make(chan struct{}, 8)
	for i := 0; i < n; i++ {
		// the full cross product scenario x entry point x moment of the second registration x back end (48
		// combinations), walked through by an index that runs on from batch to batch
		j := env.Batch*n + i
		c := &c26Case{Backend: []string{"etcd", "redis"}[(j/24)%2], Scenario: scen[j%4], Entry: entries[(j/4)%3], BWhen: []string{"before-next-heartbeat", "after-next-heartbeat"}[(j/12)%2], TickK: 1 + r.Intn(2), ExclMs: r.Intn(900)}
		c.Key = fmt.Sprintf("/c26/%d/%d", env.Batch, i)
		switch c.Entry {
		case "service":
			c.Key = fmt.Sprintf("10.0.%d.%d:5001", env.Batch, i)
		case "selfmon-active":
			c.Key = fmt.Sprintf("%s/%d-%d", selfmon.ActiveKey, env.Batch, i)
		}
		wg.Add(1)
		sem <- struct{}{}
		go func() {
			defer wg.Done()
			defer func() { <-sem }()
			run(c)
		}()
	}
	wg.Wait()
	if env.Batch == 0 {
		// the consumer of the registration: two real node-status watchers (watchers_test.go)
		c26Watchers(t, env, rec)
	}
}
