package checks

// Both metadata back ends side by side, without a Calcium: the real etcdv3.Mercury on embedded etcd and the real
// redis.Rediaron on miniredis (C18, C19, C23–C26).

import (
	"context"
	"sync"
	"testing"
	"time"

	"github.com/alicebob/miniredis/v2"
	clientv3 "go.etcd.io/etcd/client/v3"

	"github.com/projecteru2/core/store"
	"github.com/projecteru2/core/store/etcdv3"
	"github.com/projecteru2/core/store/etcdv3/embedded"
	goredis "github.com/go-redis/redis/v8"
	redisstore "github.com/projecteru2/core/store/redis"
	coretypes "github.com/projecteru2/core/types"
)

type stores struct {
	t     *testing.T
	cfg   coretypes.Config
	etcd  *etcdv3.Mercury
	redis *redisstore.Rediaron
	mr    *miniredis.Miniredis
	cli   *clientv3.Client // raw, namespaced client of the embedded etcd
	rcli  *goredis.Client  // raw client of the miniredis server (probes only)

	clockMu   sync.Mutex
	clockStop chan struct{}
}

func newStores(t *testing.T) *stores {
	mr, err := miniredis.Run()
	if err != nil {
		t.Fatalf("miniredis: %v", err)
	}
	t.Cleanup(mr.Close)
	cfg := coretypes.Config{
		MaxConcurrency: 100000,
		GlobalTimeout:  2 * time.Minute,
		LockTimeout:    30 * time.Second,
		Etcd:           coretypes.EtcdConfig{Prefix: "/verif", LockPrefix: "__lock__/verif"},
		Redis:          coretypes.RedisConfig{Addr: mr.Addr(), LockPrefix: "/lock", DB: 0},
	}
	s := &stores{t: t, cfg: cfg, mr: mr}
	if s.etcd, err = etcdv3.New(cfg, t); err != nil {
		t.Fatalf("etcdv3.New: %v", err)
	}
	if s.redis, err = redisstore.New(cfg, t); err != nil {
		t.Fatalf("redis.New: %v", err)
	}
	s.cli = embedded.NewCluster(t, cfg.Etcd.Prefix).RandClient()
	s.rcli = goredis.NewClient(&goredis.Options{Addr: mr.Addr()})
	t.Cleanup(func() { _ = s.rcli.Close() })
	return s
}

func (s *stores) backend(name string) store.Store {
	if name == "redis" {
		return s.redis
	}
	return s.etcd
}

// wipe removes every key of both back ends.
func (s *stores) wipe() {
	ctx := context.Background()
	_, _ = s.cli.Delete(ctx, "/", clientv3.WithPrefix())
	_, _ = s.cli.Delete(ctx, "_", clientv3.WithPrefix())
	s.mr.FlushAll()
}

// startRedisClock makes miniredis' virtual clock follow the wall clock (it never runs ahead of it: each tick
// advances by the time really elapsed since the previous tick), so that TTLs of redis keys behave as on a real
// server. Without it miniredis TTLs only move by explicit FastForward.
func (s *stores) startRedisClock() {
	s.clockMu.Lock()
	defer s.clockMu.Unlock()
	if s.clockStop != nil {
		return
	}
	stop := make(chan struct{})
	s.clockStop = stop
	go func() {
		last := time.Now()
		tk := time.NewTicker(5 * time.Millisecond)
		defer tk.Stop()
		for {
			select {
			case <-stop:
				return
			case now := <-tk.C:
				if d := now.Sub(last); d > 0 {
					s.mr.FastForward(d)
					last = now
				}
			}
		}
	}()
}

func (s *stores) stopRedisClock() {
	s.clockMu.Lock()
	defer s.clockMu.Unlock()
	if s.clockStop != nil {
		close(s.clockStop)
		s.clockStop = nil
	}
}
