package checks

// C16 — the recovery log replays exactly the uncommitted events.
//
// The real wal.Hydro runs on a real bbolt file (kv.Lithium). The harness sits on both sides of it: above, three
// event types with scripted handlers (per event: ok / handle-error / check-error / not-needed / decode-error,
// plus types that are not registered in an incarnation) record every Check / Handle call; below, a KV decorator
// (VerifNewHydroWithKV) records every NextSequence / Put / Delete / Scan and can "die" before or after its k-th
// operation — the crash points between the KV steps of one Log / Recover. Histories: log, commit, close+reopen,
// recover, concurrent loggers. A sequential model (set of live events by unique payload, ids seen) judges them.

import (
	"context"
	"encoding/json"
	"errors"
	"fmt"
	"math/rand"
	"os"
	"path/filepath"
	"sort"
	"strings"
	"sync"
	"testing"
	"time"

	"github.com/projecteru2/core/wal"
	"github.com/projecteru2/core/wal/kv"

	"verifharness/vkit"
)

var errWalCrash = errors.New("verif: the process died here")

// walKV decorates the real Lithium.
type walKV struct {
	real    *kv.Lithium
	mu      sync.Mutex
	ops     int
	dieAt   int    // die at the dieAt-th operation since arm (0 = never)
	dieWhen string // before | after
	dead    bool
	log     []string
	puts    []string // keys put, in order (all incarnations)
	seqs    []uint64
}

func (k *walKV) step(op, arg string) (before bool, after func()) {
	k.mu.Lock()
	defer k.mu.Unlock()
	if k.dead {
		return true, func() {}
	}
	k.ops++
	n := k.ops
	k.log = append(k.log, fmt.Sprintf("#%d %s %s", n, op, arg))
	if k.dieAt == n && k.dieWhen == "before" {
		k.dead = true
		k.log = append(k.log, "   CRASH before")
		return true, func() {}
	}
	return false, func() {
		if k.dieAt == n && k.dieWhen == "after" {
			k.mu.Lock()
			k.dead = true
			k.log = append(k.log, "   CRASH after")
			k.mu.Unlock()
		}
	}
}

func (k *walKV) Open(path string, mode os.FileMode, timeout time.Duration) error {
	return k.real.Open(path, mode, timeout)
}
func (k *walKV) Close() error { return k.real.Close() }
func (k *walKV) Put(key, value []byte) error {
	dead, after := k.step("Put", string(key))
	if dead {
		return errWalCrash
	}
	err := k.real.Put(key, value)
	if err == nil {
		k.mu.Lock()
		k.puts = append(k.puts, string(key))
		k.mu.Unlock()
	}
	after()
	return err
}
func (k *walKV) Get(key []byte) ([]byte, error) { return k.real.Get(key) }
func (k *walKV) Delete(key []byte) error {
	dead, after := k.step("Delete", string(key))
	if dead {
		return errWalCrash
	}
	err := k.real.Delete(key)
	after()
	return err
}
func (k *walKV) Scan(prefix []byte) (<-chan kv.ScanEntry, func()) {
	dead, after := k.step("Scan", string(prefix))
	if dead {
		ch := make(chan kv.ScanEntry)
		close(ch)
		return ch, func() {}
	}
	ch, abort := k.real.Scan(prefix)
	after()
	return ch, abort
}
func (k *walKV) NextSequence() (uint64, error) {
	dead, after := k.step("NextSequence", "")
	if dead {
		return 0, errWalCrash
	}
	id, err := k.real.NextSequence()
	if err == nil {
		k.mu.Lock()
		k.seqs = append(k.seqs, id)
		k.mu.Unlock()
	}
	after()
	return id, err
}

// ---- handlers ---------------------------------------------------------------------------------------------

type walItem struct {
	Payload string `json:"payload"` // unique
	Outcome string `json:"outcome"` // ok | handle-error | check-error | not-needed | decode-error
}

type walObs struct {
	mu    sync.Mutex
	calls []string // "check:<payload>", "handle:<payload>", "decode-error:<payload>"
	fixed map[string]bool // events whose failing outcome has been "repaired" (next recovery succeeds)
}

type walHandler struct {
	typ string
	obs *walObs
}

func (h *walHandler) Typ() string { return h.typ }
func (h *walHandler) Encode(v any) ([]byte, error) {
	return json.Marshal(v)
}
func (h *walHandler) Decode(b []byte) (any, error) {
	it := &walItem{}
	if err := json.Unmarshal(b, it); err != nil {
		return nil, err
	}
	h.obs.mu.Lock()
	defer h.obs.mu.Unlock()
	if it.Outcome == "decode-error" && !h.obs.fixed[it.Payload] {
		h.obs.calls = append(h.obs.calls, "decode-error:"+it.Payload)
		return nil, errors.New("scripted decode error")
	}
	return it, nil
}
func (h *walHandler) Check(_ context.Context, v any) (bool, error) {
	it := v.(*walItem)
	h.obs.mu.Lock()
	defer h.obs.mu.Unlock()
	h.obs.calls = append(h.obs.calls, "check:"+it.Payload)
	if h.obs.fixed[it.Payload] {
		return true, nil
	}
	switch it.Outcome {
	case "check-error":
		return false, errors.New("scripted check error")
	case "not-needed":
		return false, nil
	}
	return true, nil
}
func (h *walHandler) Handle(_ context.Context, v any) error {
	it := v.(*walItem)
	h.obs.mu.Lock()
	defer h.obs.mu.Unlock()
	h.obs.calls = append(h.obs.calls, "handle:"+it.Payload)
	if it.Outcome == "handle-error" && !h.obs.fixed[it.Payload] {
		return errors.New("scripted handle error")
	}
	return nil
}

// ---- history ----------------------------------------------------------------------------------------------

type walOp struct {
	Kind     string   `json:"kind"` // log | commit | reopen | recover | concurrent-log | repair
	Type     string   `json:"type,omitempty"`
	Outcome  string   `json:"outcome,omitempty"`
	Pick     int      `json:"pick,omitempty"`
	N        int      `json:"n,omitempty"`         // concurrent-log: loggers
	Types    []string `json:"registered,omitempty"` // reopen: types registered in the new incarnation
	CrashAt  int      `json:"crash_at_kv_op,omitempty"`
	CrashWhen string  `json:"crash_when,omitempty"`
}

type walCase struct {
	Ops    []walOp  `json:"ops"`
	Failed int      `json:"failed_at_op"`
	KVLog  []string `json:"kv_log_tail,omitempty"`
	Calls  []string `json:"handler_calls_of_failing_recovery,omitempty"`
}

type walEvent struct {
	payload, typ, outcome string
	key                   string // KV key (id)
	order                 int    // logging order
	commit                wal.Commit
}

func TestC16(t *testing.T) {
	env := vkit.Load("C16")
	rec := vkit.NewRec(env)
	defer rec.Finish()
	r := env.Rand("c16")
	dir := t.TempDir()
	allTypes := []string{"ta", "tb", "tc"}
	caseN := 0

	run := func(cs *walCase) {
		caseN++
		rec.Eval()
		path := filepath.Join(dir, fmt.Sprintf("wal-%d-%d.db", env.Batch, caseN))
		defer os.Remove(path)
		obs := &walObs{fixed: map[string]bool{}}
		seenKeys := map[string]bool{} // every id ever used on this file
		live := map[string]*walEvent{}
		order := 0
		var kvd *walKV
		var hydro *wal.Hydro
		registered := map[string]bool{}
		open := func(types []string) bool {
			lith := kv.NewLithium()
			if err := lith.Open(path, 0o600, 5*time.Second); err != nil {
				rec.Inconclusive("open: %v", err)
				return false
			}
			old := kvd
			kvd = &walKV{real: lith}
			if old != nil {
				kvd.puts = old.puts
			}
			hydro = wal.VerifNewHydroWithKV(kvd)
			registered = map[string]bool{}
			for _, ty := range types {
				hydro.Register(&walHandler{typ: ty, obs: obs})
				registered[ty] = true
			}
			return true
		}
		if !open(allTypes) {
			return
		}
		defer func() { _ = kvd.real.Close() }()
		failed := false
		viol := func(i int, key, what string) {
			if failed {
				return
			}
			failed = true
			cs.Failed = i
			cs.Ops = cs.Ops[:i+1]
			kvd.mu.Lock()
			cs.KVLog = tail(kvd.log, 30)
			kvd.mu.Unlock()
			rec.Violation("wal/"+key, what+fmt.Sprintf(" — at op %d %+v", i, cs.Ops[i]), cs)
		}
		payloadN := 0
		// logOne logs one event; it returns the event when it became durable (its Put happened)
		logOne := func(i int, typ, outcome string) *walEvent {
			payloadN++
			ev := &walEvent{payload: fmt.Sprintf("p%d-%d", caseN, payloadN), typ: typ, outcome: outcome}
			kvd.mu.Lock()
			nput := len(kvd.puts)
			kvd.mu.Unlock()
			commit, err := hydro.Log(typ, &walItem{Payload: ev.payload, Outcome: outcome})
			kvd.mu.Lock()
			puts := append([]string(nil), kvd.puts[nput:]...)
			kvd.mu.Unlock()
			if len(puts) > 0 {
				ev.key = puts[len(puts)-1]
			}
			ev.commit = commit
			if err != nil && len(puts) == 0 {
				return nil // not logged
			}
			return ev
		}
		adopt := func(i int, ev *walEvent) {
			if ev == nil || ev.key == "" {
				return
			}
			if seenKeys[ev.key] {
				viol(i, "event-id-reused", fmt.Sprintf("event %s was stored under id %s, which an earlier event of this file already had", ev.payload, ev.key))
				return
			}
			seenKeys[ev.key] = true
			order++
			ev.order = order
			live[ev.payload] = ev
			rec.Count("events_logged", 1)
		}
		crashAndReopen := func() bool {
			// the process died: the file is closed by the OS, a new incarnation opens it
			_ = kvd.real.Close()
			rec.Count("crashes", 1)
			return open(allTypes)
		}
		for i, op := range cs.Ops {
			if failed {
				return
			}
			rec.Count("ops/"+op.Kind, 1)
			if op.CrashAt > 0 {
				kvd.mu.Lock()
				kvd.ops, kvd.dieAt, kvd.dieWhen = 0, op.CrashAt, op.CrashWhen
				kvd.mu.Unlock()
			}
			switch op.Kind {
			case "log":
				if !registered[op.Type] {
					if _, err := hydro.Log(op.Type, &walItem{Payload: "x"}); err == nil {
						viol(i, "log-of-unregistered-type-accepted", "Log accepted an event type without a handler")
					}
					break
				}
				adopt(i, logOne(i, op.Type, op.Outcome))
			case "concurrent-log":
				var wg sync.WaitGroup
				evs := make([]*walEvent, op.N)
				var lm sync.Mutex
				for g := 0; g < op.N; g++ {
					wg.Add(1)
					go func(g int) {
						defer wg.Done()
						typ := allTypes[g%3]
						if !registered[typ] {
							return
						}
						lm.Lock()
						payloadN++
						p := fmt.Sprintf("p%d-%d", caseN, payloadN)
						lm.Unlock()
						commit, err := hydro.Log(typ, &walItem{Payload: p, Outcome: "ok"})
						if err == nil {
							evs[g] = &walEvent{payload: p, typ: typ, outcome: "ok", commit: commit}
						}
					}(g)
				}
				wg.Wait()
				// ids of concurrent logs: read back from the file (payload -> key)
				keyOf := map[string]string{}
				ch, _ := kvd.real.Scan([]byte("/events/"))
				for e := range ch {
					k, v := e.Pair()
					var he wal.HydroEvent
					if json.Unmarshal(v, &he) == nil {
						it := &walItem{}
						if json.Unmarshal(he.Item, it) == nil {
							keyOf[it.Payload] = string(k)
						}
					}
				}
				got := []*walEvent{}
				for _, ev := range evs {
					if ev != nil {
						ev.key = keyOf[ev.payload]
						if ev.key == "" {
							viol(i, "logged-event-not-stored", fmt.Sprintf("Log returned success for %s but the file holds no such event", ev.payload))
							break
						}
						got = append(got, ev)
					}
				}
				sort.Slice(got, func(a, b int) bool { return got[a].key < got[b].key })
				for _, ev := range got {
					adopt(i, ev)
				}
				rec.Count("concurrent_log_rounds", 1)
			case "commit":
				l := []*walEvent{}
				for _, ev := range live {
					if ev.commit != nil {
						l = append(l, ev)
					}
				}
				if len(l) == 0 {
					break
				}
				sort.Slice(l, func(a, b int) bool { return l[a].order < l[b].order })
				ev := l[op.Pick%len(l)]
				if err := ev.commit(); err == nil {
					delete(live, ev.payload)
					rec.Count("events_committed", 1)
				} else if !errors.Is(err, errWalCrash) {
					viol(i, "commit-fails", "commit failed: "+err.Error())
				}
			case "repair":
				// the operator fixed what made the handlers fail: failing events succeed from now on
				for _, ev := range live {
					obs.mu.Lock()
					obs.fixed[ev.payload] = true
					obs.mu.Unlock()
				}
			case "reopen":
				_ = hydro.Close()
				for _, ev := range live {
					ev.commit = nil // commit closures belong to the closed incarnation
				}
				if !open(op.Types) {
					return
				}
			case "recover":
				obs.mu.Lock()
				obs.calls = nil
				obs.mu.Unlock()
				hydro.Recover(context.Background())
				obs.mu.Lock()
				calls := append([]string(nil), obs.calls...)
				fixed := map[string]bool{}
				for k, v := range obs.fixed {
					fixed[k] = v
				}
				obs.mu.Unlock()
				cs.Calls = tail(calls, 40)
				rec.Count("recoveries", 1)
				kvd.mu.Lock()
				died := kvd.dead
				kvd.mu.Unlock()
				// (a) only live events, (b) at most once per recovery, (c) in logging order
				seen := map[string]int{}
				lastOrder := 0
				for _, c := range calls {
					kind, p, _ := strings.Cut(c, ":")
					ev, ok := live[p]
					if !ok {
						viol(i, "replayed-event-not-pending", fmt.Sprintf("recovery called %s for %s, which was never logged, was committed or had been removed", kind, p))
						break
					}
					seen[c]++
					if seen[c] > 1 {
						viol(i, "replayed-twice-in-one-recovery", fmt.Sprintf("%s happened twice in one recovery", c))
						break
					}
					if kind != "handle" {
						if ev.order < lastOrder {
							viol(i, "replayed-out-of-logging-order", fmt.Sprintf("event %s (logged #%d, type %s) was replayed after an event logged #%d; handler calls: %v", p, ev.order, ev.typ, lastOrder, calls))
							break
						}
						lastOrder = ev.order
					}
					rec.Count("handler_calls_judged", 1)
				}
				if failed {
					break
				}
				// (d) every pending event with a registered type is looked at (unless the process died on the way)
				handled := map[string]bool{}
				checked := map[string]bool{}
				for _, c := range calls {
					kind, p, _ := strings.Cut(c, ":")
					if kind == "handle" {
						handled[p] = true
					}
					checked[p] = true
				}
				if !died {
					for p, ev := range live {
						if registered[ev.typ] && !checked[p] {
							viol(i, "pending-event-not-replayed", fmt.Sprintf("pending event %s (type %s, logged #%d) was not looked at by the recovery", p, ev.typ, ev.order))
							break
						}
					}
				}
				if failed {
					break
				}
				// (e) removal: exactly the events whose handler succeeded or declared them unnecessary
				remaining := map[string]bool{}
				ch, _ := kvd.real.Scan([]byte("/events/"))
				for e := range ch {
					k, _ := e.Pair()
					remaining[string(k)] = true
				}
				for p, ev := range live {
					outcome := ev.outcome
					if fixed[p] && outcome != "not-needed" {
						outcome = "ok"
					}
					shouldGo := registered[ev.typ] && checked[p] && ((outcome == "ok" && handled[p]) || outcome == "not-needed")
					gone := !remaining[ev.key]
					switch {
					case gone && !shouldGo:
						viol(i, "event-removed-although-not-handled", fmt.Sprintf("event %s (type %s registered=%v, outcome %s) was removed by the recovery although its handler did not succeed", p, ev.typ, registered[ev.typ], outcome))
					case !gone && shouldGo && !died:
						viol(i, "event-kept-although-handled", fmt.Sprintf("event %s (outcome %s) is still in the log after a recovery that handled it", p, outcome))
					}
					if failed {
						break
					}
					if gone {
						delete(live, p)
						rec.Count("events_removed_by_recovery", 1)
					} else {
						rec.Count("events_kept_by_recovery", 1)
					}
				}
			}
			kvd.mu.Lock()
			died := kvd.dead
			kvd.dieAt = 0
			kvd.mu.Unlock()
			if died && !failed {
				rec.SetAdd("crash_points", fmt.Sprintf("%s/kv-op-%d-%s", op.Kind, op.CrashAt, op.CrashWhen))
				for _, ev := range live {
					ev.commit = nil
				}
				if !crashAndReopen() {
					return
				}
			}
		}
		if !failed {
			rec.Nontrivial(fmt.Sprintf("%+v", cs.Ops))
			rec.Sample(map[string]any{"ops": len(cs.Ops), "events_logged": order, "pending_at_end": len(live)})
		}
	}

	if env.Replay != "" {
		var cs walCase
		if err := vkit.ReadReplay(env.Replay, &cs); err != nil {
			t.Fatal(err)
		}
		cs.KVLog, cs.Calls = nil, nil
		run(&cs)
		return
	}
	outcomes := []string{"ok", "ok", "ok", "handle-error", "check-error", "not-needed", "decode-error"}
	gen := func(length int, crashes bool) *walCase {
		cs := &walCase{}
		for k := 0; k < length; k++ {
			var op walOp
			switch x := r.Intn(20); {
			case x < 9:
				op = walOp{Kind: "log", Type: allTypes[r.Intn(3)], Outcome: outcomes[r.Intn(len(outcomes))]}
			case x < 12:
				op = walOp{Kind: "commit", Pick: r.Intn(100)}
			case x < 14:
				types := []string{}
				for _, ty := range allTypes {
					if r.Intn(5) != 0 {
						types = append(types, ty)
					}
				}
				op = walOp{Kind: "reopen", Types: types}
			case x < 17:
				op = walOp{Kind: "recover"}
			case x < 18:
				op = walOp{Kind: "repair"}
			default:
				op = walOp{Kind: "concurrent-log", N: 2 + r.Intn(3)}
			}
			if crashes && (op.Kind == "log" || op.Kind == "recover" || op.Kind == "commit") && r.Intn(3) == 0 {
				op.CrashAt, op.CrashWhen = 1+r.Intn(6), []string{"before", "after"}[r.Intn(2)]
			}
			cs.Ops = append(cs.Ops, op)
		}
		cs.Ops = append(cs.Ops, walOp{Kind: "reopen", Types: allTypes}, walOp{Kind: "recover"}, walOp{Kind: "repair"}, walOp{Kind: "recover"})
		return cs
	}
	n := env.Pick(400, 6000) / env.NBatch
	for i := 0; i < n; i++ {
		run(gen(8+r.Intn(30), i%2 == 1))
	}
	// exhaustive crash points for short histories: log, log, recover with a crash before/after every KV operation
	if env.Batch == 0 {
		for when := 0; when < 2; when++ {
			for victim := 0; victim < 4; victim++ {
				for k := 1; k <= 8; k++ {
					cs := &walCase{Ops: []walOp{{Kind: "log", Type: "ta", Outcome: "ok"}, {Kind: "log", Type: "tb", Outcome: "handle-error"}, {Kind: "log", Type: "ta", Outcome: "not-needed"}, {Kind: "recover"},
						{Kind: "reopen", Types: allTypes}, {Kind: "recover"}, {Kind: "repair"}, {Kind: "recover"}}}
					cs.Ops[victim].CrashAt, cs.Ops[victim].CrashWhen = k, []string{"before", "after"}[when]
					run(cs)
					rec.Count("exhaustive_crash_cases", 1)
				}
			}
		}
	}
	_ = rand.Int
}
