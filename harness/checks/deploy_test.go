package checks

// C12 — deployment results are complete and truthful.
// C13 — deploy status counts are exact at every intercepted step, markers cleaned up (etcd and redis).

import (
	"context"
	"fmt"
	"strconv"
	"strings"
	"sync"
	"testing"

	"verifharness/sim"
	"verifharness/vkit"
)

type deployCase struct {
	Topology *sim.Topology  `json:"topology"`
	Setup    []sim.Op       `json:"setup,omitempty"`
	Op       sim.Op         `json:"op"`
	Fault    *sim.FaultPlan `json:"fault,omitempty"`
	Store    string         `json:"store"`
	Result   *sim.Result    `json:"result,omitempty"`
	Events   []string       `json:"events,omitempty"`
	PluginLayer bool        `json:"plugin_layer,omitempty"` // decorated plugins + second plugin (sim.BootOpts.PluginLayer)
}

// planFromEvents returns the sum of the counts of the Alloc calls that succeeded and whether the
// allocation step as a whole completed (every Alloc was followed by a successful CreateProcessing).
func planFromEvents(evs []sim.Event) (plan int, allocs, markers int) {
	ok := map[int64]bool{}
	for _, e := range evs {
		if e.Ret && e.Err == "" {
			ok[e.CallID] = true
		}
	}
	for _, e := range evs {
		if e.Ret || !ok[e.CallID] {
			continue
		}
		switch e.Layer + "." + e.Op {
		case "rmgr.Alloc":
			parts := strings.Split(e.Arg, ",")
			n, _ := strconv.Atoi(parts[len(parts)-1])
			plan += n
			allocs++
		case "store.CreateProcessing":
			markers++
		}
	}
	return
}

func TestC12(t *testing.T) {
	env := vkit.Load("C12")
	rec := vkit.NewRec(env)
	defer rec.Finish()
	// odd batches: plugin layer (every plugin call inside the resource manager is a fault position; second plugin)
	pluginLayer := env.Batch%2 == 1
	var replayed deployCase
	if env.Replay != "" {
		if err := vkit.ReadReplay(env.Replay, &replayed); err != nil {
			t.Fatal(err)
		}
		pluginLayer = replayed.PluginLayer
	}
	w := newWorldOpts(t, env, rec, sim.BootOpts{PluginLayer: pluginLayer})
	ctx := context.Background()
	r := env.Rand("c12")
	rs := env.Rand("c12-slots")

	runOne := func(dc *deployCase, rebuild bool) {
		if rebuild {
			if err := w.rebuild(dc.Topology, dc.Setup); err != nil {
				rec.Inconclusive("rebuild failed: %v", err)
				return
			}
		}
		before := w.cl.Snapshot(ctx)
		seq0 := w.b.Seq()
		var plan *sim.FaultPlan
		if dc.Fault != nil {
			plan = &sim.FaultPlan{Kind: dc.Fault.Kind, Index: dc.Fault.Index, Match: dc.Fault.Match}
		}
		res := w.exec(dc.Op, plan)
		rec.Eval()
		dc.Result = res
		evs := w.b.EventsSince(seq0)
		site := faultName(plan)
		viol := func(effect, what string) {
			dc.Events = eventsBrief(evs)
			rec.Violation(fmt.Sprintf("create/%s/%s", site, effect), fmt.Sprintf("%s — %s; reported: %s", what, dc.Op.String(), resBrief(res)), dc)
		}
		if res.Err != "" {
			rec.Count("requests_rejected", 1)
			return // not an accepted request
		}
		rec.Count("requests_accepted", 1)
		rec.Count("strategy/"+dc.Op.Strategy, 1)
		if plan.Fired() {
			rec.Count("faults_fired", 1)
			rec.SetAdd("fault_sites", site)
		}
		if res.TimedOut || !res.Closed {
			viol("stream-never-closed", fmt.Sprintf("the result stream did not close within %s", "90s"))
			return
		}
		planned, allocs, markers := planFromEvents(evs)
		okN, badN := 0, 0
		for _, p := range res.Parts {
			if p.OK {
				okN++
			} else {
				badN++
			}
		}
		rec.Count("messages_ok", okN)
		rec.Count("messages_failed", badN)
		planComplete := allocs > 0 && allocs == markers
		switch {
		case len(res.Parts) == 1 && badN == 1:
			// a single failure: nothing may have been created (checked below)
		case !planComplete:
			viol("wrong-message-count", fmt.Sprintf("%d messages (%d ok) although the allocation step did not complete (%d allocs, %d markers): expected a single failure", len(res.Parts), okN, allocs, markers))
			return
		case len(res.Parts) != planned:
			viol("wrong-message-count", fmt.Sprintf("%d messages for %d planned instances", len(res.Parts), planned))
			return
		}
		after := w.cl.Snapshot(ctx)
		nontrivial := okN+badN >= 2 || plan.Fired()
		// every success is recorded, started, on the reported node, with the reported resources
		seen := map[string]bool{}
		for _, p := range res.Parts {
			if !p.OK {
				continue
			}
			if p.ID == "" || seen[p.ID] {
				viol("success-without-distinct-id", fmt.Sprintf("success message with id %q (duplicate or empty)", p.ID))
				return
			}
			seen[p.ID] = true
			wl, ok := after.Workloads[p.ID]
			if !ok {
				viol("success-not-recorded", fmt.Sprintf("workload %.8s reported created but is not recorded", p.ID))
				return
			}
			if wl.Node != p.Node {
				viol("success-on-other-node", fmt.Sprintf("workload %.8s reported on %s, recorded on %s", p.ID, p.Node, wl.Node))
				return
			}
			if wl.Res != p.Res {
				viol("success-with-other-resources", fmt.Sprintf("workload %.8s reported with %s, recorded with %s", p.ID, p.Res, wl.Res))
				return
			}
			c, ok := sim.GetHost(sim.Prefix + p.Node).Get(p.ID)
			if !ok {
				viol("success-without-container", fmt.Sprintf("workload %.8s reported created but node %s has no such container", p.ID, p.Node))
				return
			}
			if c.State != "running" {
				viol("success-not-started", fmt.Sprintf("workload %.8s reported created but its container is %s", p.ID, c.State))
				return
			}
		}
		// nothing else appeared or disappeared
		for id := range after.Workloads {
			if _, was := before.Workloads[id]; !was && !seen[id] {
				viol("unreported-workload-recorded", fmt.Sprintf("workload %.8s is recorded but was not reported as created", id))
				return
			}
		}
		for id := range before.Workloads {
			if _, still := after.Workloads[id]; !still {
				viol("existing-workload-lost", fmt.Sprintf("workload %.8s existed before the create and is gone", id))
				return
			}
		}
		if probs := w.cl.CheckInvariants(ctx, after); len(probs) > 0 {
			viol("failure-left-"+probs[0].Kind, "after the stream closed: "+probs[0].What)
			return
		}
		// (a fault that hits the marker clean-up itself is outside the fault model: compensating steps succeed)
		if len(after.Processing) > 0 && site != "fault@store.DeleteProcessing" {
			viol("processing-marker-left", fmt.Sprintf("in-progress markers remain: %v", after.Processing))
			return
		}
		if nontrivial {
			rec.Nontrivial(fmt.Sprintf("%s/%s#%v/%v", dc.Op.String(), site, dc.Fault, dc.Topology))
			rec.Sample(map[string]any{"op": dc.Op.String(), "fault": site, "planned": planned, "ok": okN, "failed": badN})
		}
	}

	if env.Replay != "" {
		for i := 0; i < 6; i++ {
			runOne(&replayed, true)
		}
		return
	}
	scen := env.Pick(10, 120) / env.NBatch
	if scen < 2 {
		scen = 2
	}
	for s := 0; s < scen; s++ {
		topo := sim.GenTopology(r, r.Intn(3) != 0)
		setup := []sim.Op{}
		for i := 0; i < r.Intn(3); i++ {
			setup = append(setup, sim.GenCreate(r, topo))
		}
		if pluginLayer {
			for i := range setup {
				withSlots(rs, &setup[i])
			}
		}
		// several creates on the same evolving state, then fault enumeration for one of them
		if err := w.rebuild(topo, setup); err != nil {
			rec.Inconclusive("rebuild failed: %v", err)
			continue
		}
		for i := 0; i < 6; i++ {
			o := sim.GenCreate(r, topo)
			if pluginLayer {
				withSlots(rs, &o)
			}
			runOne(&deployCase{Topology: topo, Setup: setup, Op: o, Store: "etcd", PluginLayer: pluginLayer}, false)
		}
		op := sim.GenCreate(r, topo)
		op.Count = 2 + r.Intn(3)
		if pluginLayer {
			withSlots(rs, &op)
		}
		for k := 1; k <= 200; k++ {
			dc := &deployCase{Topology: topo, Setup: setup, Op: op, Fault: &sim.FaultPlan{Kind: "fail", Index: k}, Store: "etcd", PluginLayer: pluginLayer}
			runOne(dc, true)
			if dc.Result == nil || dc.Result.PlanSize < k { // PlanSize = boundary calls counted; k beyond the op's calls
				break
			}
		}
	}
}

// ---- C13 --------------------------------------------------------------------------------------

func TestC13(t *testing.T) {
	env := vkit.Load("C13")
	rec := vkit.NewRec(env)
	defer rec.Finish()
	redis := env.Batch%2 == 1
	var replayCase deployCase
	if env.Replay != "" {
		if err := vkit.ReadReplay(env.Replay, &replayCase); err != nil {
			t.Fatal(err)
		}
		redis = replayCase.Store == "redis"
	}
	storeName := map[bool]string{false: "etcd", true: "redis"}[redis]
	w := newWorld(t, env, rec, redis)
	ctx := context.Background()
	r := env.Rand("c13")

	var mu sync.Mutex
	var active *c13Monitor
	// etcd: every meta.KV call inside a store operation is a step of its own. The steps INSIDE AddWorkload (which
	// records the instance and takes it out of the in-progress marker) are intercepted too: after each of its KV calls
	// the bounds are evaluated from the calling goroutine - but only while no other boundary call is in flight, so
	// that what is read is not a half-written state of somebody else.
	kvSteps := !redis && w.cl.InstallKVShim()
	adding := map[int64]bool{}    // goroutines inside store.AddWorkload
	observing := map[int64]bool{} // goroutines inside an observation (their own KV reads are not steps)
	var obsMu sync.Mutex
	w.b.OnDone = func(ev sim.Event) {
		mu.Lock()
		m := active
		if ev.Layer == "store" && ev.Op == "AddWorkload" {
			delete(adding, ev.G)
		}
		inside := adding[ev.G] && !observing[ev.G]
		if inside && ev.Layer == "kv" {
			observing[ev.G] = true
		}
		mu.Unlock()
		if !kvSteps || m == nil || ev.Layer != "kv" || !inside {
			return
		}
		defer func() { mu.Lock(); delete(observing, ev.G); mu.Unlock() }()
		if w.b.Inflight() != 1 {
			rec.Count("kv_steps_inside_add_workload_not_observed_others_in_flight", 1)
			return
		}
		obsMu.Lock()
		v0 := m.violation
		m.observe(sim.Event{Layer: "kv-step-inside-store.AddWorkload/after", Op: ev.Op, Arg: ev.Arg})
		if w.b.Inflight() != 1 && v0 == "" && m.violation != "" {
			m.violation, m.vkind = "", "" // somebody started meanwhile: the reading may be torn
		} else {
			rec.Count("kv_steps_inside_add_workload_observed", 1)
		}
		obsMu.Unlock()
	}
	w.b.OnCall = func(ev sim.Event) {
		mu.Lock()
		m := active
		if ev.Layer == "store" && ev.Op == "AddWorkload" {
			adding[ev.G] = true
		}
		skip := ev.Layer == "kv"
		mu.Unlock()
		if m == nil || ev.Layer == "lock" || skip {
			return
		}
		// the gate would make every boundary call wait for the ones in flight: the store writes that record the
		// instances of one node would never overlap. They are let through ungated (the bounds are evaluated at the
		// next gated call, with the writes complete), so that two of them can really run side by side.
		if ev.Layer == "store" && ev.Op == "AddWorkload" {
			rec.Count("ungated_add_workload_calls/"+storeName, 1)
			return
		}
		w.b.Quiesce(func() { obsMu.Lock(); m.observe(ev); obsMu.Unlock() })
	}

	runOne := func(dc *deployCase, rebuild bool) {
		if rebuild {
			if err := w.rebuild(dc.Topology, dc.Setup); err != nil {
				rec.Inconclusive("rebuild failed: %v", err)
				return
			}
		}
		w.cl.WaitQuiet(quietPatience)
		prior, err := w.cl.Raw.GetDeployStatus(ctx, dc.Op.App, dc.Op.Entry)
		if err != nil {
			rec.Inconclusive("GetDeployStatus: %v", err)
			return
		}
		m := &c13Monitor{w: w, rec: rec, app: dc.Op.App, entry: dc.Op.Entry, prior: prior, seq0: w.b.Seq()}
		mu.Lock()
		active = m
		mu.Unlock()
		var plan *sim.FaultPlan
		if dc.Fault != nil {
			plan = &sim.FaultPlan{Kind: dc.Fault.Kind, Index: dc.Fault.Index}
		}
		res := w.exec(dc.Op, plan)
		mu.Lock()
		active = nil
		mu.Unlock()
		rec.Eval()
		dc.Result = res
		site := faultName(plan)
		if plan.Fired() {
			rec.Count("faults_fired/"+storeName, 1)
			rec.SetAdd("fault_sites/"+storeName, site)
		}
		if res.Err != "" || res.TimedOut {
			return
		}
		rec.Count("deployments/"+storeName, 1)
		rec.Count("gates_evaluated/"+storeName, m.gates)
		viol := func(effect, what string) {
			dc.Events = eventsBrief(w.b.EventsSince(m.seq0))
			rec.Violation(fmt.Sprintf("%s/create/%s/%s", storeName, site, effect), fmt.Sprintf("%s — %s; reported: %s", what, dc.Op.String(), resBrief(res)), dc)
		}
		if m.violation != "" {
			viol(m.vkind, m.violation)
			return
		}
		// after return: count == recorded workloads, no marker of this deployment remains
		status, err := w.cl.Raw.GetDeployStatus(ctx, dc.Op.App, dc.Op.Entry)
		if err != nil {
			rec.Inconclusive("GetDeployStatus: %v", err)
			return
		}
		recorded, markers := m.rawCounts()
		for node, n := range status {
			if n != recorded[node] {
				viol("count-differs-after-return", fmt.Sprintf("after the deployment returned node %s counts %d, %d workloads are recorded there", node, n, recorded[node]))
				return
			}
		}
		for node, n := range recorded {
			if status[node] != n {
				viol("count-differs-after-return", fmt.Sprintf("after the deployment returned node %s counts %d, %d workloads are recorded there", node, status[node], n))
				return
			}
		}
		// (a fault that hits the marker clean-up itself is outside the fault model: compensating steps succeed)
		if len(markers) > 0 && site != "fault@store.DeleteProcessing" {
			viol("marker-left", fmt.Sprintf("in-progress markers remain after the deployment returned: %v", markers))
			return
		}
		if m.gates >= 5 {
			rec.Nontrivial(fmt.Sprintf("%s/%s/%s/%v", storeName, dc.Op.String(), site, dc.Topology))
			rec.Sample(map[string]any{"store": storeName, "op": dc.Op.String(), "fault": site, "gates": m.gates, "distinct_pairs_seen": len(m.pairs)})
		}
		for p := range m.pairs {
			rec.SetAdd("deployed_processing_pairs/"+storeName, p)
		}
	}

	if env.Replay != "" {
		for i := 0; i < 6; i++ {
			runOne(&replayCase, true)
		}
		return
	}
	scen := env.Pick(8, 100) / ((env.NBatch + 1) / 2)
	if scen < 2 {
		scen = 2
	}
	for s := 0; s < scen; s++ {
		topo := sim.GenTopology(r, true)
		setup := []sim.Op{}
		if err := w.rebuild(topo, setup); err != nil {
			rec.Inconclusive("rebuild failed: %v", err)
			continue
		}
		for i := 0; i < 6; i++ {
			op := sim.GenCreate(r, topo)
			// the same application and mostly the same entrypoint, so that prior counts are non-zero; the sibling
			// entrypoints' names have the judged one's name as a prefix or are a prefix of it: their workloads and
			// markers must not be counted
			op.App, op.Entry = "app", []string{"web", "web2", "web", "we", "web", "web2"}[i]
			rec.Count("deployments_of_entrypoint/"+op.Entry, 1)
			runOne(&deployCase{Topology: topo, Op: op, Store: storeName}, false)
		}
		// several instances on ONE node at once: their records are written side by side and all count the same
		// in-progress marker down
		for i := 0; i < 2; i++ {
			one := topo.Nodes[r.Intn(len(topo.Nodes))]
			op := sim.Op{Kind: "create", App: "app", Entry: "web", Pod: one.Pod, Strategy: "AUTO", Count: 4 + r.Intn(3), Includes: []string{one.Name}, Res: sim.Res{CPU: 0.1, Memory: 1 << 22}}
			rec.Count("deployments_of_many_instances_on_one_node/"+storeName, 1)
			runOne(&deployCase{Topology: topo, Op: op, Store: storeName}, false)
		}
		op := sim.GenCreate(r, topo)
		op.App, op.Entry = "app", "web"
		op.Count = 2 + r.Intn(3)
		pre := sim.GenCreate(r, topo)
		pre.App, pre.Entry, pre.Strategy = "app", []string{"web", "web2"}[s%2], "AUTO"
		for k := 1; k <= 90; k++ {
			dc := &deployCase{Topology: topo, Setup: []sim.Op{pre}, Op: op, Fault: &sim.FaultPlan{Kind: "fail", Index: k}, Store: storeName}
			runOne(dc, true)
			if dc.Result == nil || dc.Result.PlanSize < k {
				break
			}
		}
	}
}

type c13Monitor struct {
	w         *world
	rec       *vkit.Rec
	app       string
	entry     string
	prior     map[string]int
	seq0      int64
	gates     int
	pairs     map[string]bool
	violation string
	vkind     string
}

// rawCounts counts recorded workloads and in-progress markers of app/entry per node from a raw dump.
func (m *c13Monitor) rawCounts() (recorded map[string]int, markers []string) {
	recorded = map[string]int{}
	keys, err := m.w.cl.RawKeys(context.Background())
	if err != nil {
		return
	}
	dp := "/deploy/" + m.app + "/" + m.entry + "/"
	pp := "/processing/" + m.app + "/" + m.entry + "/"
	for k, v := range keys {
		if strings.HasPrefix(k, dp) {
			parts := strings.Split(strings.TrimPrefix(k, dp), "/")
			if len(parts) == 2 {
				recorded[parts[0]]++
			}
		}
		if strings.HasPrefix(k, pp) {
			markers = append(markers, strings.TrimPrefix(k, pp)+"="+v)
		}
	}
	return
}

// observe runs under the gate (nothing in flight): status within [recorded, prior+planned] on every node.
func (m *c13Monitor) observe(ev sim.Event) {
	if m.violation != "" {
		return
	}
	ctx := context.Background()
	status, err := m.w.cl.Raw.GetDeployStatus(ctx, m.app, m.entry)
	if err != nil {
		return
	}
	m.gates++
	if m.pairs == nil {
		m.pairs = map[string]bool{}
	}
	recorded, markers := m.rawCounts()
	planned := map[string]int{}
	okCalls := map[int64]bool{}
	evs := m.w.b.EventsSince(m.seq0)
	for _, e := range evs {
		if e.Ret && e.Err == "" {
			okCalls[e.CallID] = true
		}
	}
	for _, e := range evs {
		if !e.Ret && e.Layer == "store" && e.Op == "CreateProcessing" && okCalls[e.CallID] {
			parts := strings.Split(e.Arg, ",")
			n, _ := strconv.Atoi(parts[1])
			planned[parts[0]] += n
		}
	}
	nodes := map[string]bool{}
	for n := range status {
		nodes[n] = true
	}
	for n := range recorded {
		nodes[n] = true
	}
	for n := range nodes {
		m.pairs[fmt.Sprintf("deployed=%d,processing=%d", recorded[n], status[n]-recorded[n])] = true
		if status[n] > m.prior[n]+planned[n] {
			m.vkind = "count-above-prior-plus-planned"
			m.violation = fmt.Sprintf("at %s.%s(%s): node %s counts %d > prior %d + planned %d (markers %v)", ev.Layer, ev.Op, ev.Arg, n, status[n], m.prior[n], planned[n], markers)
			return
		}
		if status[n] < recorded[n] {
			m.vkind = "count-below-recorded"
			m.violation = fmt.Sprintf("at %s.%s(%s): node %s counts %d < %d workloads recorded there (markers %v)", ev.Layer, ev.Op, ev.Arg, n, status[n], recorded[n], markers)
			return
		}
	}
}
