package checks

// C28 — a failed node's workloads are reported down (bounded liveness).
//
// Real Calcium on embedded etcd + the real selfmon.RunNodeStatusWatcher. The harness plays the node agents:
// it heartbeats nodes (status key with a TTL), reports workloads running/healthy, and makes heartbeats lapse
// by deletion, by revoking the status key's lease and by letting a short TTL expire. Every lapse that happens
// while the watcher is active (or is still in effect when a watcher becomes active) creates an obligation:
// within W every workload recorded on the node is reported neither running nor healthy.

import (
	"context"
	"fmt"
	"sort"
	"testing"
	"time"

	clientv3 "go.etcd.io/etcd/client/v3"

	"github.com/projecteru2/core/selfmon"
	"github.com/projecteru2/core/types"

	"verifharness/sim"
	"verifharness/vkit"
)

const c28Bound = 15 * time.Second

type c28Step struct {
	Kind  string   `json:"kind"` // start-watcher | stop-watcher | lapse | revive | create
	Nodes []string `json:"nodes,omitempty"`
	How   string   `json:"how,omitempty"` // delete | revoke | expire
	Count int      `json:"count,omitempty"`
}

type c28Case struct {
	Topology *sim.Topology `json:"topology"`
	PerNode  map[string]int `json:"workloads_per_node"`
	Steps    []c28Step     `json:"steps"`
	FailedAt int           `json:"failed_step"`
	Log      []string      `json:"log,omitempty"`
}

func TestC28(t *testing.T) {
	env := vkit.Load("C28")
	rec := vkit.NewRec(env)
	defer rec.Finish()
	w := newWorld(t, env, rec, false)
	cli := w.cl.EtcdClient()
	ctx := context.Background()
	r := env.Rand("c28")
	wcfg := w.cl.Cfg
	wcfg.ConnectionTimeout = 50 * time.Millisecond
	wcfg.HAKeepaliveInterval = 6 * time.Second

	var stopWatcher func()
	watcherActive := func() bool {
		resp, err := cli.Get(ctx, selfmon.ActiveKey)
		return err == nil && len(resp.Kvs) > 0
	}
	startWatcher := func() bool {
		wctx, cancel := context.WithCancel(w.cl.Ctx("watcher"))
		done := make(chan struct{})
		go func() { defer close(done); selfmon.RunNodeStatusWatcher(wctx, wcfg, w.cl.C, t) }()
		stopWatcher = func() {
			cancel()
			select {
			case <-done:
			case <-time.After(20 * time.Second):
			}
			stopWatcher = nil
		}
		for i := 0; i < 1000; i++ {
			if watcherActive() {
				return true
			}
			time.Sleep(5 * time.Millisecond)
		}
		return false
	}

	report := func(ids []string, up bool) error {
		if len(ids) == 0 {
			return nil
		}
		metas := []*types.StatusMeta{}
		for k, id := range ids {
			m := &types.StatusMeta{ID: id, Running: up, Healthy: up}
			// what an agent reports for a workload that is up is not always "running and healthy": every third one runs
			// with its health check not (yet) passed, every fifth one is healthy-only
			if up && k%3 == 1 {
				m.Healthy = false
				rec.Count("workloads_reported_running_but_unhealthy", 1)
			} else if up && k%5 == 2 {
				m.Running = false
				rec.Count("workloads_reported_healthy_only", 1)
			}
			metas = append(metas, m)
		}
		_, err := w.cl.C.SetWorkloadsStatus(w.cl.Ctx("agent"), metas, nil)
		return err
	}
	onNode := func(node string) []string {
		ws, err := w.cl.Raw.ListNodeWorkloads(ctx, node, nil)
		if err != nil {
			return nil
		}
		ids := []string{}
		for _, x := range ws {
			ids = append(ids, x.ID)
		}
		sort.Strings(ids)
		return ids
	}
	// stillUp returns the workloads on node that are still reported running or healthy
	stillUp := func(node string) []string {
		out := []string{}
		for _, id := range onNode(node) {
			st, err := w.cl.Raw.GetWorkloadStatus(ctx, id)
			if err != nil || st == nil {
				continue
			}
			if st.Running || st.Healthy {
				out = append(out, id[:8])
			}
		}
		return out
	}

	runCase := func(cs *c28Case) {
		if stopWatcher != nil {
			stopWatcher()
		}
		if err := w.rebuild(cs.Topology, nil); err != nil {
			rec.Inconclusive("rebuild failed: %v", err)
			return
		}
		rec.Eval()
		logf := func(f string, a ...any) {
			if len(cs.Log) < 200 {
				cs.Log = append(cs.Log, fmt.Sprintf(f, a...))
			}
		}
		create := func(node string, n int) {
			res := w.exec(sim.Op{Kind: "create", App: "app", Entry: "web", Pod: cs.Topology.Pods[0], Strategy: "AUTO", Count: n, Includes: []string{node}, Res: sim.Res{CPU: 0.2, Memory: 1 << 24}}, nil)
			ids := []string{}
			for _, p := range res.Parts {
				if p.OK {
					ids = append(ids, p.ID)
				}
			}
			if err := report(ids, true); err != nil {
				logf("report failed: %v", err)
			}
			rec.Count("workloads_created", len(ids))
		}
		names := []string{}
		for _, n := range cs.Topology.Nodes {
			names = append(names, n.Name)
		}
		sort.Strings(names)
		for _, n := range names {
			if k := cs.PerNode[n]; k > 0 {
				create(n, k)
			}
		}
		lapsed := map[string]bool{}
		lapseCount := map[string]int{}
		watching := false
		nodeOf := func(name string) *types.Node { n, _ := w.cl.Raw.GetNode(ctx, name); return n }
		// obligations: nodes that are lapsed while a watcher is active
		settle := func(step int, nodes []string, since time.Time) bool {
			deadline := since.Add(c28Bound)
			for _, n := range nodes {
				for {
					up := stillUp(n)
					if len(up) == 0 {
						lat := time.Since(since)
						rec.Count("obligations_discharged", 1)
						rec.Max("max:latency_ms", int(lat.Milliseconds()))
						switch {
						case lat < 100*time.Millisecond:
							rec.Count("latency/<100ms", 1)
						case lat < time.Second:
							rec.Count("latency/<1s", 1)
						default:
							rec.Count("latency/>=1s", 1)
						}
						break
					}
					if time.Now().After(deadline) {
						cs.FailedAt = step
						cs.Steps = cs.Steps[:step+1]
						how := cs.Steps[step].How
						if cs.Steps[step].Kind == "start-watcher" {
							how = "lapsed-before-watcher-start"
						}
						nth := "first-lapse"
						if lapseCount[n] > 1 {
							nth = "repeated-lapse"
						}
						rec.Violation(fmt.Sprintf("still-running/%s/%s", how, nth),
							fmt.Sprintf("%v after the heartbeat of node %s disappeared (%s) with the watcher active, workloads %v on it are still reported running/healthy", c28Bound, n, how, up), cs)
						return false
					}
					time.Sleep(10 * time.Millisecond)
				}
			}
			return true
		}
		for si, st := range cs.Steps {
			logf("step %d: %+v", si, st)
			rec.Count("steps/"+st.Kind, 1)
			switch st.Kind {
			case "start-watcher":
				if watching {
					continue
				}
				t0 := time.Now()
				if !startWatcher() {
					rec.Inconclusive("watcher did not become active")
					return
				}
				watching = true
				ls := []string{}
				for n := range lapsed {
					ls = append(ls, n)
				}
				sort.Strings(ls)
				if len(ls) > 0 {
					rec.Count("lapses_before_watcher_start", len(ls))
					if !settle(si, ls, t0) {
						return
					}
				} else {
					time.Sleep(150 * time.Millisecond) // let the watch get established before the next lapse
				}
			case "stop-watcher":
				if stopWatcher != nil {
					stopWatcher()
				}
				watching = false
			case "lapse":
				targets := []string{}
				for _, n := range st.Nodes {
					if lapsed[n] {
						continue
					}
					// precondition: the node's workloads are reported running right now (otherwise the lapse shows nothing)
					ids := onNode(n)
					if len(stillUp(n)) != len(ids) {
						rec.Count("lapse_precondition_lost", 1)
					}
					rec.Count("workloads_reported_running_at_lapse", len(ids))
					if len(ids) > 0 {
						rec.Count("lapses_of_nodes_with_running_workloads", 1)
						if lapseCount[n] > 0 {
							rec.Count("repeated_lapses_of_nodes_with_running_workloads", 1)
						}
					}
					targets = append(targets, n)
				}
				t0 := time.Now()
				for _, n := range targets {
					node := nodeOf(n)
					if node == nil {
						continue
					}
					switch st.How {
					case "delete":
						_ = w.cl.Raw.SetNodeStatus(ctx, node, -1)
					case "revoke":
						resp, err := cli.Get(ctx, "/status:node/"+n)
						if err == nil && len(resp.Kvs) > 0 && resp.Kvs[0].Lease != 0 {
							_, _ = cli.Revoke(ctx, clientv3.LeaseID(resp.Kvs[0].Lease))
						} else {
							_ = w.cl.Raw.SetNodeStatus(ctx, node, -1)
						}
					case "expire":
						_ = w.cl.Raw.SetNodeStatus(ctx, node, 1)
					}
					lapsed[n] = true
					lapseCount[n]++
					rec.Count("lapses/"+st.How, 1)
				}
				if st.How == "expire" {
					// wait (bounded) until the key really expired; the obligation starts then
					for i := 0; i < 1000; i++ {
						gone := true
						for _, n := range targets {
							if resp, err := cli.Get(ctx, "/status:node/"+n); err != nil || len(resp.Kvs) > 0 {
								gone = false
							}
						}
						if gone {
							break
						}
						time.Sleep(10 * time.Millisecond)
					}
					t0 = time.Now()
				}
				if len(targets) > 1 {
					rec.Count("simultaneous_lapses", 1)
				}
				if watching && !settle(si, targets, t0) {
					return
				}
			case "revive":
				w.cl.WaitQuiet(quietPatience) // late duplicates of the watcher's reaction must not undo the re-report
				for _, n := range st.Nodes {
					if !lapsed[n] {
						continue
					}
					node := nodeOf(n)
					if node == nil {
						continue
					}
					if err := w.cl.Raw.SetNodeStatus(ctx, node, 3600); err != nil {
						logf("heartbeat failed: %v", err)
						continue
					}
					delete(lapsed, n)
					if err := report(onNode(n), true); err != nil {
						logf("re-report failed: %v", err)
					}
					rec.Count("revivals", 1)
				}
			case "create":
				for _, n := range st.Nodes {
					if !lapsed[n] {
						create(n, st.Count)
					}
				}
			}
		}
		rec.Nontrivial(fmt.Sprintf("%+v %+v", cs.Steps, cs.PerNode))
		rec.Sample(map[string]any{"steps": cs.Steps, "workloads_per_node": cs.PerNode})
	}

	if env.Replay != "" {
		var cs c28Case
		if err := vkit.ReadReplay(env.Replay, &cs); err != nil {
			t.Fatal(err)
		}
		cs.Log = nil
		runCase(&cs)
		if stopWatcher != nil {
			stopWatcher()
		}
		return
	}
	n := env.Pick(64, 600) / env.NBatch
	for i := 0; i < n; i++ {
		topo := sim.GenTopology(r, true)
		topo.Pods = topo.Pods[:1]
		for k := range topo.Nodes {
			topo.Nodes[k].Pod = "pa"
			topo.Nodes[k].NUMACPU, topo.Nodes[k].NUMAMem = nil, nil
		}
		if len(topo.Nodes) > 4 {
			topo.Nodes = topo.Nodes[:4]
		}
		cs := &c28Case{Topology: topo, PerNode: map[string]int{}}
		names := []string{}
		for _, nd := range topo.Nodes {
			names = append(names, nd.Name)
			cs.PerNode[nd.Name] = r.Intn(4)
		}
		pick := func() []string {
			k := 1
			if r.Intn(3) == 0 {
				k = 2 + r.Intn(len(names)-1)
			}
			out := []string{}
			for _, j := range r.Perm(len(names))[:k] {
				out = append(out, names[j])
			}
			sort.Strings(out)
			return out
		}
		how := func() string {
			switch x := r.Intn(10); {
			case x < 5:
				return "delete"
			case x < 9:
				return "revoke"
			}
			return "expire"
		}
		before := r.Intn(4) == 0 // a lapse before the watcher starts
		if before {
			cs.Steps = append(cs.Steps, c28Step{Kind: "lapse", Nodes: pick(), How: how()})
		}
		cs.Steps = append(cs.Steps, c28Step{Kind: "start-watcher"})
		for k := 3 + r.Intn(5); k > 0; k-- {
			switch x := r.Intn(10); {
			case x < 4:
				cs.Steps = append(cs.Steps, c28Step{Kind: "lapse", Nodes: pick(), How: how()})
			case x < 7:
				cs.Steps = append(cs.Steps, c28Step{Kind: "revive", Nodes: names})
			case x < 9:
				cs.Steps = append(cs.Steps, c28Step{Kind: "create", Nodes: pick(), Count: 1 + r.Intn(2)})
			default:
				cs.Steps = append(cs.Steps, c28Step{Kind: "stop-watcher"}, c28Step{Kind: "lapse", Nodes: pick(), How: how()}, c28Step{Kind: "start-watcher"})
			}
		}
		runCase(cs)
	}
	if stopWatcher != nil {
		stopWatcher()
	}
}
