package checks

// C32 part (b) — cluster level: after every operation that can change CPU binding on a node (create, remove,
// dissociate, realloc bind<->unbind, replace, set-node capacity) the real Calcium remaps the node asynchronously.
// At the quiescent point after each operation the in-memory engine's update history is read: the LAST resource
// update of every unbound workload must be a remap onto exactly the cores that have one full share free now
// (all cores when there are none), and the most recent update of a bound workload must not be a remap.

import (
	"time"
	"sync/atomic"
	"sync"
	"context"
	"encoding/json"
	"fmt"
	"math/rand"
	"sort"
	"strings"
	"testing"

	"github.com/mitchellh/mapstructure"

	cpumemtypes "github.com/projecteru2/core/resource/plugins/cpumem/types"
	resourcetypes "github.com/projecteru2/core/resource/types"

	"verifharness/sim"
	"verifharness/vkit"
)

type remapClusterCase struct {
	Topology *sim.Topology `json:"topology"`
	Ops      []sim.Op      `json:"ops"`
	FailedAt int           `json:"failed_at_op"`
	Events   []string      `json:"events_of_failing_op,omitempty"`
	// Bursts: indices i such that ops[i] and ops[i+1] (two creates on one node, one bound and one unbound) run
	// concurrently while every other engine update is delayed by 25 ms: their two remaps follow each other closely
	Bursts []int `json:"concurrent_pairs_at,omitempty"`
	// PartFail: ops[i] is a deployment of several instances on one node of which the engine rejects every n-th, so that
	// it fails partly; optionally giving back the failed instances' resources fails too (second fault)
	PartFail map[int]*remapPartFail `json:"partly_failing_deployments_at,omitempty"`
}

type remapPartFail struct {
	FailCreateEvery int64          `json:"engine_rejects_every_nth_create"`
	Fault           *sim.FaultPlan `json:"fault,omitempty"`
	SlowGiveBack    bool           `json:"give_back_delayed_by_30ms,omitempty"`
}

func engineCPU(p resourcetypes.Resources) (cores string, remap bool, ok bool) {
	raw, has := p["cpumem"]
	if !has {
		return "", false, false
	}
	e := &cpumemtypes.EngineParams{}
	if err := mapstructure.Decode(map[string]any(raw), e); err != nil {
		return "", false, false
	}
	l := []string{}
	for c := range e.CPUMap {
		l = append(l, c)
	}
	sort.Strings(l)
	return strings.Join(l, ","), e.Remap, true
}

func c32Cluster(t *testing.T, env *vkit.Env, rec *vkit.Rec, replay *remapClusterCase) {
	w := newWorld(t, env, rec, false)
	ctx := context.Background()
	r := env.Rand("c32b")

	var checkOnce func(cs *remapClusterCase, oi int, seq0 int64, report bool) bool
	// The remap is asynchronous: core hands it to its worker pool after the operation returned, and nothing of it is
	// visible until that goroutine has been given a CPU. A verdict that a late remap could still overturn is therefore
	// only reported when it persists after a second, much longer quiet period (a genuinely missing or stale remap
	// persists for ever; a late one shows up).
	check := func(cs *remapClusterCase, oi int, seq0 int64) bool {
		if checkOnce(cs, oi, seq0, false) {
			return true
		}
		rec.Count("cluster/rechecks_after_a_longer_quiet_period", 1)
		w.cl.WaitQuietWindow(400*time.Millisecond, 20*time.Second)
		return checkOnce(cs, oi, seq0, true)
	}
	checkOnce = func(cs *remapClusterCase, oi int, seq0 int64, report bool) bool {
		snap := w.cl.Snapshot(ctx)
		recs, err := w.cl.ResourceRecords(ctx)
		if err != nil {
			rec.Inconclusive("resource records: %v", err)
			return false
		}
		viol := func(key, what string) bool {
			if !report {
				return false
			}
			cs.FailedAt = oi
			cs.Ops = cs.Ops[:oi+1]
			cs.Events = eventsBrief(w.b.EventsSince(seq0))
			rec.Violation("cluster-remap/"+cs.Ops[oi].Kind+"/"+key, what+" — after "+cs.Ops[oi].String(), cs)
			return false
		}
		share := map[string]string{}
		fallback := map[string]bool{}
		for n, info := range recs {
			l := []string{}
			for c, capv := range info.Capacity.CPUMap {
				if capv-info.Usage.CPUMap[c] >= 100 {
					l = append(l, c)
				}
			}
			if len(l) == 0 {
				fallback[n] = true
				for c := range info.Capacity.CPUMap {
					l = append(l, c)
				}
			}
			sort.Strings(l)
			share[n] = strings.Join(l, ",")
		}
		ids := []string{}
		for id := range snap.Workloads {
			ids = append(ids, id)
		}
		sort.Strings(ids)
		for _, id := range ids {
			ws := snap.Workloads[id]
			var res resourcetypes.Resources
			_ = json.Unmarshal([]byte(ws.Res), &res)
			wr := &cpumemtypes.WorkloadResource{}
			if err := wr.Parse(res["cpumem"]); err != nil {
				rec.Inconclusive("cannot parse workload resources: %v", err)
				return false
			}
			h := sim.GetHost(sim.Prefix + ws.Node)
			if h == nil {
				continue
			}
			c, ok := h.Get(id)
			if !ok {
				continue // C10/C12 judge records without container
			}
			if len(wr.CPUMap) > 0 {
				rec.Count("cluster/bound_workloads_seen", 1)
				// (updates it received while it was still unbound do not count: only the most recent one is judged)
				if len(c.Updates) > 0 {
					if _, remap, ok := engineCPU(c.Updates[len(c.Updates)-1]); ok && remap {
						return viol("bound-workload-remapped", fmt.Sprintf("workload %.8s on %s is bound to %v but its most recent engine update is a remap", id, ws.Node, wr.CPUMap))
					}
				}
				continue
			}
			rec.Count("cluster/unbound_workloads_checked", 1)
			if len(c.Updates) == 0 {
				return viol("unbound-workload-never-remapped", fmt.Sprintf("unbound workload %.8s on %s never received a remap although operations changed the node", id, ws.Node))
			}
			cores, remap, ok := engineCPU(c.Updates[len(c.Updates)-1])
			if !ok || !remap {
				return viol("last-update-not-a-remap", fmt.Sprintf("the last engine update of unbound workload %.8s on %s is not a remap (%v)", id, ws.Node, c.Updates[len(c.Updates)-1]))
			}
			if cores != share[ws.Node] {
				return viol("wrong-shared-core-set", fmt.Sprintf("unbound workload %.8s on %s runs on cores {%s}; cores with a full share free are {%s} (fallback to all: %v)", id, ws.Node, cores, share[ws.Node], fallback[ws.Node]))
			}
			if fallback[ws.Node] {
				rec.Count("cluster/fallback_all_cores_checks", 1)
			}
		}
		rec.Count("cluster/quiescent_points_checked", 1)
		return true
	}

	run := func(cs *remapClusterCase) {
		if err := w.rebuild(cs.Topology, nil); err != nil {
			rec.Inconclusive("rebuild failed: %v", err)
			return
		}
		rec.Eval()
		mixed := false
		burstAt := map[int]bool{}
		for _, i := range cs.Bursts {
			burstAt[i] = true
		}
		for oi := 0; oi < len(cs.Ops); oi++ {
			op := cs.Ops[oi]
			seq0 := w.b.Seq()
			if burstAt[oi] && oi+1 < len(cs.Ops) {
				w.cl.WaitQuiet(10 * time.Second)
				var nUpd int64
				w.b.OnCall = func(ev sim.Event) {
					if ev.Op == "VirtualizationUpdateResource" && atomic.AddInt64(&nUpd, 1)%2 == 1 {
						time.Sleep(25 * time.Millisecond)
					}
				}
				w.b.Arm(nil)
				pair := []sim.Op{op, cs.Ops[oi+1]}
				results := make([]*sim.Result, 2)
				var wg sync.WaitGroup
				for j := range pair {
					wg.Add(1)
					go func(j int) {
						defer wg.Done()
						results[j] = w.cl.Exec(sim.NewModel(), pair[j], fmt.Sprintf("burst%d-%d", oi, j))
					}(j)
					time.Sleep(time.Duration(oi%4) * time.Millisecond)
				}
				wg.Wait()
				if !w.cl.WaitQuiet(20 * time.Second) {
					rec.Count("quiescence_timeouts", 1)
				}
				w.b.Disarm()
				w.b.OnCall = nil
				for j := range pair {
					w.model.Apply(pair[j], results[j])
					rec.Count("cluster/ops/"+pair[j].Kind, 1)
					if results[j].TimedOut {
						rec.Inconclusive("op %s timed out", pair[j].Kind)
						return
					}
				}
				rec.Count("cluster/concurrent_pairs", 1)
				oi++
				if !check(cs, oi, seq0) {
					return
				}
				mixed = true
				continue
			}
			var plan *sim.FaultPlan
			pf := cs.PartFail[oi]
			var pfHost *sim.Host
			if pf != nil && len(op.Includes) == 1 {
				if pfHost = sim.GetHost(sim.Prefix + op.Includes[0]); pfHost != nil {
					atomic.StoreInt64(&pfHost.FailCreateEvery, pf.FailCreateEvery)
				}
				if pf.Fault != nil {
					cp := *pf.Fault
					plan = &cp
				} else if pf.SlowGiveBack {
					// the give-back is slow: the remap the deployment itself scheduled runs before it
					w.b.OnCall = func(ev sim.Event) {
						if ev.Layer == "rmgr" && ev.Op == "RollbackAlloc" {
							time.Sleep(30 * time.Millisecond)
						}
					}
				}
			}
			res := w.exec(op, plan)
			if pfHost != nil {
				w.b.OnCall = nil
				atomic.StoreInt64(&pfHost.FailCreateEvery, 0)
				okN, failN := 0, 0
				for _, p := range res.Parts {
					if p.OK {
						okN++
					} else {
						failN++
					}
				}
				if okN > 0 && failN > 0 {
					rec.Count("cluster/partly_failed_deployments", 1)
					if plan.Fired() {
						rec.Count("cluster/partly_failed_deployments_whose_give_back_failed", 1)
					}
					if pf.SlowGiveBack {
						rec.Count("cluster/partly_failed_deployments_whose_give_back_was_slow", 1)
					}
				}
			}
			rec.Count("cluster/ops/"+op.Kind, 1)
			if res.TimedOut {
				rec.Inconclusive("op %s timed out", op.Kind)
				return
			}
			if !check(cs, oi, seq0) {
				return
			}
			if op.Kind == "realloc" && !res.AnyFailed() {
				rec.Count("cluster/reallocs_succeeded", 1)
			}
			mixed = true
		}
		if mixed {
			rec.Nontrivial(fmt.Sprintf("cluster %+v", cs.Ops))
		}
	}

	if replay != nil {
		replay.Events = nil
		run(replay)
		return
	}
	n := env.Pick(40, 400) / env.NBatch
	for i := 0; i < n; i++ {
		topo := sim.GenTopology(r, true)
		for k := range topo.Nodes {
			switch r.Intn(5) {
			case 0:
				topo.Nodes[k].Share = 200
			case 1:
				topo.Nodes[k].Share = 50
			}
			if topo.Nodes[k].Cores > 4 {
				topo.Nodes[k].Cores = 2 + r.Intn(3) // few cores: bound workloads really exhaust the shared pool
				topo.Nodes[k].NUMACPU, topo.Nodes[k].NUMAMem = nil, nil
			}
		}
		cs := &remapClusterCase{Topology: topo}
		for k := 10 + r.Intn(12); k > 0; k-- {
			if k%5 == 0 { // a concurrent pair: an unbound and a bound create on the same node
				node := topo.Nodes[r.Intn(len(topo.Nodes))]
				a := sim.Op{Kind: "create", App: "app", Entry: "web", Pod: node.Pod, Strategy: "AUTO", Count: 1, Includes: []string{node.Name}, Res: sim.Res{CPU: 0.3, Memory: 1 << 24}}
				b := a
				b.Res = sim.Res{Bind: true, CPU: 1, Memory: 1 << 24}
				if r.Intn(2) == 0 {
					a, b = b, a
				}
				cs.Bursts = append(cs.Bursts, len(cs.Ops))
				cs.Ops = append(cs.Ops, a, b)
				continue
			}
			if k%7 == 3 { // a deployment of several bound instances on one node that fails partly
				node := topo.Nodes[r.Intn(len(topo.Nodes))]
				if cs.PartFail == nil {
					cs.PartFail = map[int]*remapPartFail{}
				}
				pf := &remapPartFail{FailCreateEvery: 2}
				switch r.Intn(3) {
				case 0:
					pf.Fault = &sim.FaultPlan{Kind: "fail", Match: "rmgr.RollbackAlloc", Index: 1}
				case 1:
					pf.SlowGiveBack = true
				}
				cs.PartFail[len(cs.Ops)] = pf
				cs.Ops = append(cs.Ops, sim.Op{Kind: "create", App: "app", Entry: "web", Pod: node.Pod, Strategy: "AUTO", Count: 2 + r.Intn(2), Includes: []string{node.Name},
					Res: sim.Res{Bind: true, CPU: []float64{0.5, 1}[r.Intn(2)], Memory: 1 << 24}})
				continue
			}
			cs.Ops = append(cs.Ops, c32GenOp(r, topo))
		}
		run(cs)
	}
}

func c32GenOp(r *rand.Rand, t *sim.Topology) sim.Op {
	node := t.Nodes[r.Intn(len(t.Nodes))]
	switch k := r.Intn(20); {
	case k < 8:
		op := sim.Op{Kind: "create", App: "app", Entry: "web", Pod: node.Pod, Strategy: "AUTO", Count: 1 + r.Intn(2), Includes: []string{node.Name}}
		if r.Intn(2) == 0 {
			op.Res = sim.Res{Bind: true, CPU: []float64{0.5, 1, 1, 1.5, 2}[r.Intn(5)], Memory: 1 << 24}
		} else {
			op.Res = sim.Res{CPU: []float64{0, 0.3, 1}[r.Intn(3)], Memory: 1 << 24}
		}
		return op
	case k < 11:
		return sim.Op{Kind: "remove", Picks: []int{r.Intn(1000)}}
	case k < 12:
		return sim.Op{Kind: "dissociate", Picks: []int{r.Intn(1000)}}
	case k < 17:
		res := sim.Res{Bind: r.Intn(2) == 0, Keep: r.Intn(3) == 0}
		switch r.Intn(3) {
		case 0:
			res.CPU = float64(1+r.Intn(100)) / 100
		case 1:
			res.CPU = -float64(1+r.Intn(50)) / 100
		}
		return sim.Op{Kind: "realloc", Picks: []int{r.Intn(1000)}, Res: res}
	case k < 18:
		return sim.Op{Kind: "replace", Picks: []int{r.Intn(1000)}, App: "app", Entry: "web"}
	default:
		return sim.Op{Kind: "set-node", Node: node.Name, Delta: true, CPUDelta: 1}
	}
}
