package sim

// Topology / operation generators and the executor that drives the real Calcium API.

import (
	"fmt"
	"math/rand"
	"sort"
	"strconv"
	"strings"
	"time"

	resourcetypes "github.com/projecteru2/core/resource/types"
	"github.com/projecteru2/core/types"
)

// Topology is a generated cluster layout.
type Topology struct {
	Pods  []string   `json:"pods"`
	Nodes []NodeSpec `json:"nodes"`
}

// Res is a workload resource request in harness form.
type Res struct {
	Bind   bool    `json:"bind,omitempty"`
	Keep   bool    `json:"keep_bind,omitempty"`
	CPU    float64 `json:"cpu"`
	Memory int64   `json:"memory"`
	Slots  int64   `json:"slots,omitempty"` // request to the second plugin (plugin layer only; a delta in re-allocations)
}

// Raw converts to the plugin's request.
func (r Res) Raw() resourcetypes.Resources {
	p := resourcetypes.RawParams{"cpu-request": r.CPU, "cpu-limit": r.CPU, "memory-request": r.Memory, "memory-limit": r.Memory}
	if r.Bind {
		p["cpu-bind"] = true
	}
	if r.Keep {
		p["keep-cpu-bind"] = true
	}
	out := resourcetypes.Resources{"cpumem": p}
	if r.Slots != 0 {
		out[SlotsName] = resourcetypes.RawParams{"slots-request": r.Slots}
	}
	return out
}

// Op is one cluster API call.
type Op struct {
	Kind     string            `json:"kind"`
	App      string            `json:"app,omitempty"`
	Entry    string            `json:"entry,omitempty"`
	Pod      string            `json:"pod,omitempty"`
	Strategy string            `json:"strategy,omitempty"`
	Count    int               `json:"count,omitempty"`
	Limit    int               `json:"nodes_limit,omitempty"`
	Includes []string          `json:"includes,omitempty"`
	Excludes []string          `json:"excludes,omitempty"`
	Labels   map[string]string `json:"labels,omitempty"`
	All      bool              `json:"all,omitempty"`
	Res      Res               `json:"res,omitempty"`
	Picks    []int             `json:"picks,omitempty"` // indices into the model's sorted live workload list (mod len)
	IDs      []string          `json:"ids,omitempty"`   // explicit ids (replays)
	Node     string            `json:"node,omitempty"`
	NodeSpec *NodeSpec         `json:"node_spec,omitempty"`
	Delta    bool              `json:"delta,omitempty"`
	CPUDelta int               `json:"cpu_delta,omitempty"`    // set-node: cores (delta) or absolute core count
	MemDelta int64             `json:"memory_delta,omitempty"` // set-node
	NUMACPU  []string          `json:"numa_cpu,omitempty"`     // set-node: per NUMA node a core list ("0,1")
	NUMAMem  []string          `json:"numa_memory,omitempty"`  // set-node: per NUMA node an amount ("256M")
	Bypass   int               `json:"bypass,omitempty"`       // 0 keep 1 true 2 false
	Control  string            `json:"control,omitempty"`
	Files    map[string]int    `json:"files,omitempty"` // send: path -> size
}

// String is a short description.
func (o Op) String() string {
	switch o.Kind {
	case "create":
		return fmt.Sprintf("create %s/%s x%d %s pod=%s inc=%v exc=%v labels=%v res=%+v", o.App, o.Entry, o.Count, o.Strategy, o.Pod, o.Includes, o.Excludes, o.Labels, o.Res)
	case "set-node":
		return fmt.Sprintf("set-node %s delta=%v cpu=%d mem=%d numa=%v/%v bypass=%d labels=%v", o.Node, o.Delta, o.CPUDelta, o.MemDelta, o.NUMACPU, o.NUMAMem, o.Bypass, o.Labels)
	}
	return fmt.Sprintf("%s picks=%v ids=%d node=%s res=%+v %s", o.Kind, o.Picks, len(o.IDs), o.Node, o.Res, o.Control)
}

// Part is the outcome of one part of an operation.
type Part struct {
	ID   string `json:"id,omitempty"`   // workload id (create success: the new id)
	Node string `json:"node,omitempty"`
	OK   bool   `json:"ok"`
	Err  string `json:"err,omitempty"`
	Res  string `json:"resources,omitempty"` // create success: canonical resources of the message
	NewID string `json:"new_id,omitempty"`   // replace
}

// Result is the outcome of an operation.
type Result struct {
	Err       string `json:"err,omitempty"` // error returned by the API call itself
	Parts     []Part `json:"parts,omitempty"`
	Closed    bool   `json:"closed"`   // streaming ops: the stream closed
	TimedOut  bool   `json:"timed_out,omitempty"`
	PlanSize  int    `json:"plan_size,omitempty"` // create: sum of Alloc counts observed
}

// AnyFailed reports whether the call or any part failed.
func (r *Result) AnyFailed() bool {
	if r.Err != "" {
		return true
	}
	for _, p := range r.Parts {
		if !p.OK {
			return true
		}
	}
	return false
}

// AllFailed reports whether nothing succeeded.
func (r *Result) AllFailed() bool {
	if r.Err != "" {
		return true
	}
	for _, p := range r.Parts {
		if p.OK {
			return false
		}
	}
	return len(r.Parts) > 0
}

// Model is the harness's own record of what the API reported.
type Model struct {
	Live map[string]string // workload id -> node
}

// NewModel .
func NewModel() *Model { return &Model{Live: map[string]string{}} }

// Sorted returns live ids in order.
func (m *Model) Sorted() []string {
	ids := make([]string, 0, len(m.Live))
	for id := range m.Live {
		ids = append(ids, id)
	}
	sort.Strings(ids)
	return ids
}

func (m *Model) pick(op Op) []string {
	if len(op.IDs) > 0 {
		return op.IDs
	}
	ids := m.Sorted()
	if len(ids) == 0 {
		return nil
	}
	out := []string{}
	seen := map[string]bool{}
	for _, p := range op.Picks {
		id := ids[p%len(ids)]
		if !seen[id] {
			seen[id] = true
			out = append(out, id)
		}
	}
	return out
}

// Apply updates the model with what the API reported.
func (m *Model) Apply(op Op, r *Result) {
	switch op.Kind {
	case "create":
		for _, p := range r.Parts {
			if p.OK {
				m.Live[p.ID] = p.Node
			}
		}
	case "remove", "dissociate":
		for _, p := range r.Parts {
			if p.OK {
				delete(m.Live, p.ID)
			}
		}
	case "replace":
		for _, p := range r.Parts {
			if p.OK {
				node := m.Live[p.ID]
				delete(m.Live, p.ID)
				m.Live[p.NewID] = node
			}
		}
	}
}

const streamPatience = 90 * time.Second

// Exec runs op against the cluster and reports the outcome. Streams are drained with a watchdog.
func (cl *Cluster) Exec(m *Model, op Op, label string) *Result {
	ctx := cl.Ctx(label)
	r := &Result{}
	fail := func(err error) *Result { r.Err = err.Error(); return r }
	timeout := time.After(streamPatience)
	switch op.Kind {
	case "create":
		opts := &types.DeployOptions{Name: op.App, Entrypoint: &types.Entrypoint{Name: op.Entry}, Podname: op.Pod, Image: "img", Count: op.Count,
			DeployStrategy: op.Strategy, NodesLimit: op.Limit, Resources: op.Res.Raw(),
			NodeFilter: &types.NodeFilter{Podname: op.Pod, Includes: op.Includes, Excludes: op.Excludes, Labels: op.Labels, All: op.All}}
		ch, err := cl.C.CreateWorkload(ctx, opts)
		if err != nil {
			return fail(err)
		}
		for {
			select {
			case msg, ok := <-ch:
				if !ok {
					r.Closed = true
					return r
				}
				p := Part{ID: msg.WorkloadID, Node: msg.Nodename, OK: msg.Error == nil}
				if msg.Error != nil {
					p.Err = msg.Error.Error()
					p.ID = ""
				} else {
					p.Res = canon(msg.Resources)
				}
				r.Parts = append(r.Parts, p)
			case <-timeout:
				r.TimedOut = true
				return r
			}
		}
	case "remove":
		ids := m.pick(op)
		if len(ids) == 0 {
			r.Closed = true
			return r
		}
		ch, err := cl.C.RemoveWorkload(ctx, ids, true)
		if err != nil {
			return fail(err)
		}
		for {
			select {
			case msg, ok := <-ch:
				if !ok {
					r.Closed = true
					return r
				}
				r.Parts = append(r.Parts, Part{ID: msg.WorkloadID, OK: msg.Success})
			case <-timeout:
				r.TimedOut = true
				return r
			}
		}
	case "dissociate":
		ids := m.pick(op)
		if len(ids) == 0 {
			r.Closed = true
			return r
		}
		ch, err := cl.C.DissociateWorkload(ctx, ids)
		if err != nil {
			return fail(err)
		}
		for {
			select {
			case msg, ok := <-ch:
				if !ok {
					r.Closed = true
					return r
				}
				p := Part{ID: msg.WorkloadID, OK: msg.Error == nil}
				if msg.Error != nil {
					p.Err = msg.Error.Error()
				}
				r.Parts = append(r.Parts, p)
			case <-timeout:
				r.TimedOut = true
				return r
			}
		}
	case "realloc":
		ids := m.pick(op)
		if len(ids) == 0 {
			r.Closed = true
			return r
		}
		err := cl.C.ReallocResource(ctx, &types.ReallocOptions{ID: ids[0], Resources: op.Res.Raw()})
		p := Part{ID: ids[0], OK: err == nil}
		if err != nil {
			p.Err = err.Error()
		}
		r.Parts = append(r.Parts, p)
		r.Closed = true
		return r
	case "replace":
		ids := m.pick(op)
		if len(ids) == 0 {
			r.Closed = true
			return r
		}
		opts := &types.ReplaceOptions{DeployOptions: types.DeployOptions{Name: op.App, Entrypoint: &types.Entrypoint{Name: op.Entry}, Image: "img2", IgnorePull: false}, IDs: ids}
		ch, err := cl.C.ReplaceWorkload(ctx, opts)
		if err != nil {
			return fail(err)
		}
		for {
			select {
			case msg, ok := <-ch:
				if !ok {
					r.Closed = true
					return r
				}
				p := Part{OK: msg.Error == nil}
				if msg.Remove != nil {
					p.ID = msg.Remove.WorkloadID
				}
				if msg.Create != nil {
					p.NewID = msg.Create.WorkloadID
				}
				if msg.Error != nil {
					p.Err = msg.Error.Error()
				}
				r.Parts = append(r.Parts, p)
			case <-timeout:
				r.TimedOut = true
				return r
			}
		}
	case "control":
		ids := m.pick(op)
		if len(ids) == 0 {
			r.Closed = true
			return r
		}
		ch, err := cl.C.ControlWorkload(ctx, ids, op.Control, true)
		if err != nil {
			return fail(err)
		}
		for {
			select {
			case msg, ok := <-ch:
				if !ok {
					r.Closed = true
					return r
				}
				p := Part{ID: msg.WorkloadID, OK: msg.Error == nil}
				if msg.Error != nil {
					p.Err = msg.Error.Error()
				}
				r.Parts = append(r.Parts, p)
			case <-timeout:
				r.TimedOut = true
				return r
			}
		}
	case "set-node":
		o := &types.SetNodeOptions{Nodename: op.Node, Delta: op.Delta, Labels: op.Labels, Bypass: types.TriOptions(op.Bypass)}
		if op.CPUDelta != 0 || op.MemDelta != 0 || len(op.NUMACPU) > 0 || len(op.NUMAMem) > 0 {
			p := resourcetypes.RawParams{}
			if len(op.NUMACPU) > 0 {
				p["numa-cpu"] = op.NUMACPU
			}
			if len(op.NUMAMem) > 0 {
				p["numa-memory"] = op.NUMAMem
			}
			if op.CPUDelta != 0 {
				p["cpu"] = op.CPUDelta
			}
			if op.MemDelta != 0 {
				p["memory"] = op.MemDelta
			}
			o.Resources = resourcetypes.Resources{"cpumem": p}
		}
		_, err := cl.C.SetNode(ctx, o)
		p := Part{Node: op.Node, OK: err == nil}
		if err != nil {
			p.Err = err.Error()
		}
		r.Parts = append(r.Parts, p)
		r.Closed = true
		return r
	case "add-node":
		_, err := cl.AddNode(ctx, *op.NodeSpec)
		p := Part{Node: op.NodeSpec.Name, OK: err == nil}
		if err != nil {
			p.Err = err.Error()
		}
		r.Parts = append(r.Parts, p)
		r.Closed = true
		return r
	case "remove-node":
		err := cl.C.RemoveNode(ctx, op.Node)
		p := Part{Node: op.Node, OK: err == nil}
		if err != nil {
			p.Err = err.Error()
		}
		r.Parts = append(r.Parts, p)
		r.Closed = true
		return r
	case "add-pod":
		_, err := cl.C.AddPod(ctx, op.Pod, "")
		p := Part{Node: op.Pod, OK: err == nil}
		if err != nil {
			p.Err = err.Error()
		}
		r.Parts = append(r.Parts, p)
		r.Closed = true
		return r
	case "remove-pod":
		err := cl.C.RemovePod(ctx, op.Pod)
		p := Part{Node: op.Pod, OK: err == nil}
		if err != nil {
			p.Err = err.Error()
		}
		r.Parts = append(r.Parts, p)
		r.Closed = true
		return r
	case "capacity":
		opts := &types.DeployOptions{Name: op.App, Entrypoint: &types.Entrypoint{Name: op.Entry}, Podname: op.Pod, Image: "img", Count: 1, DeployStrategy: op.Strategy, Resources: op.Res.Raw(),
			NodeFilter: &types.NodeFilter{Podname: op.Pod, Includes: op.Includes, Excludes: op.Excludes, Labels: op.Labels, All: op.All}}
		_, err := cl.C.CalculateCapacity(ctx, opts)
		p := Part{OK: err == nil}
		if err != nil {
			p.Err = err.Error()
		}
		r.Parts = append(r.Parts, p)
		r.Closed = true
		return r
	case "node-resource", "node-repair":
		_, err := cl.C.NodeResource(ctx, op.Node, op.Kind == "node-repair")
		p := Part{Node: op.Node, OK: err == nil}
		if err != nil {
			p.Err = err.Error()
		}
		r.Parts = append(r.Parts, p)
		r.Closed = true
		return r
	case "send":
		ids := m.pick(op)
		if len(ids) == 0 {
			r.Closed = true
			return r
		}
		files := []types.LinuxFile{}
		for path, size := range op.Files {
			files = append(files, types.LinuxFile{Filename: path, Content: make([]byte, size), UID: 1, GID: 1, Mode: 0o644})
		}
		ch, err := cl.C.Send(ctx, &types.SendOptions{IDs: ids, Files: files})
		if err != nil {
			return fail(err)
		}
		for {
			select {
			case msg, ok := <-ch:
				if !ok {
					r.Closed = true
					return r
				}
				p := Part{ID: msg.ID, OK: msg.Error == nil}
				if msg.Error != nil {
					p.Err = msg.Error.Error()
				}
				r.Parts = append(r.Parts, p)
			case <-timeout:
				r.TimedOut = true
				return r
			}
		}
	}
	return fail(fmt.Errorf("unknown op kind %q", op.Kind))
}

// ---- generators -------------------------------------------------------------------------------

// GenTopology draws a small cluster: 1–2 pods, 2–5 nodes, 2–8 cores, optional NUMA, labels, liveness.
func GenTopology(r *rand.Rand, allUp bool) *Topology {
	t := &Topology{Pods: []string{"pa"}}
	if r.Intn(3) == 0 {
		t.Pods = append(t.Pods, "pb")
	}
	n := 2 + r.Intn(4)
	for i := 0; i < n; i++ {
		cores := 2 + r.Intn(7)
		// names that are prefixes of one another (n1 / n10, n2 / n20): key-prefix mistakes in the stores show up
		ns := NodeSpec{Name: []string{"n0", "n1", "n10", "n2", "n20"}[i], Pod: t.Pods[r.Intn(len(t.Pods))], Cores: cores, Memory: int64(1+r.Intn(16)) << 30, Up: true, Labels: map[string]string{}}
		if r.Intn(2) == 0 {
			ns.Labels["zone"] = []string{"a", "b"}[r.Intn(2)]
		}
		if r.Intn(3) == 0 {
			ns.Labels["disk"] = "ssd"
		}
		if r.Intn(3) == 0 && cores >= 2 {
			split := 1 + r.Intn(cores-1)
			a, b := []string{}, []string{}
			for c := 0; c < cores; c++ {
				if c < split {
					a = append(a, strconv.Itoa(c))
				} else {
					b = append(b, strconv.Itoa(c))
				}
			}
			ns.NUMACPU = []string{strings.Join(a, ","), strings.Join(b, ",")}
			half := ns.Memory / 2
			ns.NUMAMem = []string{strconv.FormatInt(half, 10), strconv.FormatInt(half, 10)}
		}
		if !allUp {
			switch r.Intn(6) {
			case 0:
				ns.Up = false
			case 1:
				ns.Bypass = true
			}
		}
		t.Nodes = append(t.Nodes, ns)
	}
	return t
}

// Install creates the pods and nodes of a topology.
func (cl *Cluster) Install(t *Topology) error {
	ctx := cl.Ctx("setup")
	for _, p := range t.Pods {
		if _, err := cl.C.AddPod(ctx, p, ""); err != nil {
			return fmt.Errorf("AddPod %s: %w", p, err)
		}
	}
	for _, n := range t.Nodes {
		if _, err := cl.AddNode(ctx, n); err != nil {
			return fmt.Errorf("AddNode %s: %w", n.Name, err)
		}
	}
	return nil
}

var strategies = []string{"AUTO", "AUTO", "FILL", "EACH", "GLOBAL", "DRAINED"}

// GenRes draws a workload resource request.
func GenRes(r *rand.Rand) Res {
	res := Res{Bind: r.Intn(2) == 0}
	switch r.Intn(5) {
	case 0:
		res.CPU = float64(1+r.Intn(99)) / 100
	case 1:
		res.CPU = float64(1 + r.Intn(2))
	case 2:
		res.CPU = float64(1+r.Intn(250)) / 100
	case 3:
		res.CPU = 0.5
	default:
		res.CPU = float64(1+r.Intn(9)) / 10
	}
	if !res.Bind && r.Intn(4) == 0 {
		res.CPU = 0
	}
	switch r.Intn(4) {
	case 0:
		res.Memory = 0
	case 1:
		res.Memory = int64(1+r.Intn(8)) << 26
	case 2:
		res.Memory = int64(1+r.Intn(4)) << 29
	default:
		res.Memory = int64(1+r.Intn(16)) << 20
	}
	if res.Bind && res.CPU == 0 {
		res.CPU = 1
	}
	return res
}

// GenCreate draws a create operation on topology t.
func GenCreate(r *rand.Rand, t *Topology) Op {
	op := Op{Kind: "create", App: []string{"app", "appx"}[r.Intn(2)], Entry: []string{"web", "web2"}[r.Intn(2)], Pod: t.Pods[r.Intn(len(t.Pods))],
		Strategy: strategies[r.Intn(len(strategies))], Count: 1 + r.Intn(4), Res: GenRes(r)}
	switch r.Intn(6) {
	case 0:
		k := 1 + r.Intn(len(t.Nodes))
		for _, i := range r.Perm(len(t.Nodes))[:k] {
			op.Includes = append(op.Includes, t.Nodes[i].Name)
		}
	case 1:
		op.Excludes = []string{t.Nodes[r.Intn(len(t.Nodes))].Name}
	case 2:
		op.Labels = map[string]string{"zone": []string{"a", "b"}[r.Intn(2)]}
	}
	if op.Strategy == "EACH" || op.Strategy == "FILL" {
		op.Limit = r.Intn(3)
		op.Count = 1 + r.Intn(2)
	} else if r.Intn(4) == 0 {
		op.Limit = 1 + r.Intn(3)
	}
	return op
}

// GenOp draws an arbitrary operation of the C10 history alphabet.
func GenOp(r *rand.Rand, t *Topology) Op {
	pick := func() []int { return []int{r.Intn(1000)} }
	switch k := r.Intn(20); {
	case k < 7:
		return GenCreate(r, t)
	case k < 10:
		n := 1 + r.Intn(3)
		p := []int{}
		for i := 0; i < n; i++ {
			p = append(p, r.Intn(1000))
		}
		return Op{Kind: "remove", Picks: p}
	case k < 11:
		return Op{Kind: "dissociate", Picks: pick()}
	case k < 15:
		res := Res{Keep: r.Intn(2) == 0, Bind: r.Intn(2) == 0}
		switch r.Intn(4) {
		case 0:
			res.CPU = float64(1+r.Intn(100)) / 100
		case 1:
			res.CPU = -float64(1+r.Intn(50)) / 100
		}
		res.Memory = int64(r.Intn(5)-2) << 24
		return Op{Kind: "realloc", Picks: pick(), Res: res}
	case k < 17:
		return Op{Kind: "replace", Picks: pick(), App: "app", Entry: "web"}
	case k < 19:
		op := Op{Kind: "set-node", Node: t.Nodes[r.Intn(len(t.Nodes))].Name}
		switch r.Intn(4) {
		case 0:
			op.Delta, op.MemDelta = true, int64(1+r.Intn(4))<<28
		case 1:
			op.Labels = map[string]string{"zone": []string{"a", "b", "c"}[r.Intn(3)]}
		case 2:
			op.Delta, op.CPUDelta = true, 1
		default:
			op.Bypass = 1 + r.Intn(2)
		}
		return op
	default:
		return Op{Kind: "control", Picks: pick(), Control: []string{"stop", "start", "restart"}[r.Intn(3)]}
	}
}
