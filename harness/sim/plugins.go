package sim

// The plugin layer of the resource manager, made visible: a recording / fault-injecting decorator around every
// resource plugin (layer "plugin", operation "<plugin>.<method>"), and a second, very small plugin ("slots") so
// that the multi-plugin paths of resource/cobalt — partial commits and their internal rollbacks — are reached.
// Without this layer a fault can only fail a whole resource-manager call before it does anything.

import (
	"context"
	"fmt"
	"math"
	"sort"
	"sync"

	enginetypes "github.com/projecteru2/core/engine/types"
	"github.com/projecteru2/core/resource/plugins"
	plugintypes "github.com/projecteru2/core/resource/plugins/types"
	resourcetypes "github.com/projecteru2/core/resource/types"
	coretypes "github.com/projecteru2/core/types"
)

// PluginShim decorates a resource plugin.
type PluginShim struct {
	Real plugins.Plugin
	B    *Boundary
	Inst string
}

var _ plugins.Plugin = (*PluginShim)(nil)

func (p *PluginShim) gate(op, arg string, f func() error) error {
	done, ierr := p.B.Call(p.Inst, "plugin", p.Real.Name()+"."+op, arg)
	if ierr != nil {
		done(ierr)
		return ierr
	}
	err := f()
	done(err)
	return err
}

func (p *PluginShim) Name() string { return p.Real.Name() }

func (p *PluginShim) CalculateDeploy(ctx context.Context, nodename string, deployCount int, req plugintypes.WorkloadResourceRequest) (r *plugintypes.CalculateDeployResponse, err error) {
	err = p.gate("CalculateDeploy", nodename, func() error { r, err = p.Real.CalculateDeploy(ctx, nodename, deployCount, req); return err })
	return
}
func (p *PluginShim) CalculateRealloc(ctx context.Context, nodename string, res plugintypes.WorkloadResource, req plugintypes.WorkloadResourceRequest) (r *plugintypes.CalculateReallocResponse, err error) {
	err = p.gate("CalculateRealloc", nodename, func() error { r, err = p.Real.CalculateRealloc(ctx, nodename, res, req); return err })
	return
}
func (p *PluginShim) CalculateRemap(ctx context.Context, nodename string, wr map[string]plugintypes.WorkloadResource) (r *plugintypes.CalculateRemapResponse, err error) {
	err = p.gate("CalculateRemap", nodename, func() error { r, err = p.Real.CalculateRemap(ctx, nodename, wr); return err })
	return
}
func (p *PluginShim) AddNode(ctx context.Context, nodename string, req plugintypes.NodeResourceRequest, info *enginetypes.Info) (r *plugintypes.AddNodeResponse, err error) {
	err = p.gate("AddNode", nodename, func() error { r, err = p.Real.AddNode(ctx, nodename, req, info); return err })
	return
}
func (p *PluginShim) RemoveNode(ctx context.Context, nodename string) (r *plugintypes.RemoveNodeResponse, err error) {
	err = p.gate("RemoveNode", nodename, func() error { r, err = p.Real.RemoveNode(ctx, nodename); return err })
	return
}
func (p *PluginShim) GetNodesDeployCapacity(ctx context.Context, nodenames []string, req plugintypes.WorkloadResourceRequest) (r *plugintypes.GetNodesDeployCapacityResponse, err error) {
	err = p.gate("GetNodesDeployCapacity", fmt.Sprint(len(nodenames)), func() error {
		r, err = p.Real.GetNodesDeployCapacity(ctx, nodenames, req)
		return err
	})
	return
}
func (p *PluginShim) SetNodeResourceCapacity(ctx context.Context, nodename string, res plugintypes.NodeResource, req plugintypes.NodeResourceRequest, delta bool, incr bool) (r *plugintypes.SetNodeResourceCapacityResponse, err error) {
	err = p.gate("SetNodeResourceCapacity", nodename, func() error {
		r, err = p.Real.SetNodeResourceCapacity(ctx, nodename, res, req, delta, incr)
		return err
	})
	return
}
func (p *PluginShim) GetNodeResourceInfo(ctx context.Context, nodename string, wr []plugintypes.WorkloadResource) (r *plugintypes.GetNodeResourceInfoResponse, err error) {
	err = p.gate("GetNodeResourceInfo", nodename, func() error { r, err = p.Real.GetNodeResourceInfo(ctx, nodename, wr); return err })
	return
}
func (p *PluginShim) SetNodeResourceInfo(ctx context.Context, nodename string, capacity plugintypes.NodeResource, usage plugintypes.NodeResource) (r *plugintypes.SetNodeResourceInfoResponse, err error) {
	err = p.gate("SetNodeResourceInfo", nodename, func() error { r, err = p.Real.SetNodeResourceInfo(ctx, nodename, capacity, usage); return err })
	return
}
func (p *PluginShim) SetNodeResourceUsage(ctx context.Context, nodename string, res plugintypes.NodeResource, req plugintypes.NodeResourceRequest, wr []plugintypes.WorkloadResource, delta bool, incr bool) (r *plugintypes.SetNodeResourceUsageResponse, err error) {
	err = p.gate("SetNodeResourceUsage", nodename, func() error {
		r, err = p.Real.SetNodeResourceUsage(ctx, nodename, res, req, wr, delta, incr)
		return err
	})
	return
}
func (p *PluginShim) GetMostIdleNode(ctx context.Context, nodenames []string) (*plugintypes.GetMostIdleNodeResponse, error) {
	return p.Real.GetMostIdleNode(ctx, nodenames)
}
func (p *PluginShim) FixNodeResource(ctx context.Context, nodename string, wr []plugintypes.WorkloadResource) (r *plugintypes.GetNodeResourceInfoResponse, err error) {
	err = p.gate("FixNodeResource", nodename, func() error { r, err = p.Real.FixNodeResource(ctx, nodename, wr); return err })
	return
}
func (p *PluginShim) GetMetricsDescription(ctx context.Context) (*plugintypes.GetMetricsDescriptionResponse, error) {
	return p.Real.GetMetricsDescription(ctx)
}
func (p *PluginShim) GetMetrics(ctx context.Context, podname, nodename string) (*plugintypes.GetMetricsResponse, error) {
	return p.Real.GetMetrics(ctx, podname, nodename)
}

// ---- the second plugin --------------------------------------------------------------------------

// SlotsName is the name of the second plugin.
const SlotsName = "slots"

// SlotsDefaultCapacity is what a node gets when it is added without a slots request.
const SlotsDefaultCapacity = 64

type slotNode struct{ Cap, Used int64 }

// SlotsPlugin keeps one scalar resource per node in memory: capacity and usage in "slots". A workload asks for
// {"slots-request": k}; a re-allocation asks for a delta like cpumem does. It follows the contract documented in
// resource/plugins/plugin.go and the conventions of cpumem (request > resource > workloads in SetNodeResourceUsage,
// Before/After copies, errors for unknown nodes and insufficient capacity).
type SlotsPlugin struct {
	mu    sync.Mutex
	nodes map[string]*slotNode
	// FailUsageWrites: that many of the next SetNodeResourceUsage calls fail before writing (harnesses without a
	// Boundary use it to make the commit of a multi-plugin operation fail in the second plugin)
	FailUsageWrites int
	// OnFailedUsageWrite, when set, runs when such an injected failure happens (the harness cancels the caller's
	// context at that moment: a caller that gives up while the commit is failing)
	OnFailedUsageWrite func()
}

var _ plugins.Plugin = (*SlotsPlugin)(nil)

// NewSlotsPlugin .
func NewSlotsPlugin() *SlotsPlugin { return &SlotsPlugin{nodes: map[string]*slotNode{}} }

// Reset forgets every node (the harness wipes the metadata store between histories).
func (s *SlotsPlugin) Reset() {
	s.mu.Lock()
	s.nodes = map[string]*slotNode{}
	s.FailUsageWrites = 0
	s.mu.Unlock()
}

// FailNextUsageWrites arms the failure switch.
func (s *SlotsPlugin) FailNextUsageWrites(n int) {
	s.mu.Lock()
	s.FailUsageWrites = n
	s.mu.Unlock()
}

// Dump returns name -> "used/capacity" of every node the plugin knows.
func (s *SlotsPlugin) Dump() map[string]string {
	s.mu.Lock()
	defer s.mu.Unlock()
	out := map[string]string{}
	for n, x := range s.nodes {
		out[n] = fmt.Sprintf("%d/%d", x.Used, x.Cap)
	}
	return out
}

// Used returns the recorded usage of a node.
func (s *SlotsPlugin) Used(node string) (int64, bool) {
	s.mu.Lock()
	defer s.mu.Unlock()
	x, ok := s.nodes[node]
	if !ok {
		return 0, false
	}
	return x.Used, true
}

func (s *SlotsPlugin) Name() string { return SlotsName }

func slotsOf(p resourcetypes.RawParams, key string) int64 {
	if p == nil {
		return 0
	}
	return p.Int64(key)
}

func nodeRes(v int64) plugintypes.NodeResource { return plugintypes.NodeResource{"slots": v} }

func (s *SlotsPlugin) CalculateDeploy(_ context.Context, nodename string, deployCount int, req plugintypes.WorkloadResourceRequest) (*plugintypes.CalculateDeployResponse, error) {
	s.mu.Lock()
	defer s.mu.Unlock()
	n, ok := s.nodes[nodename]
	if !ok {
		return nil, coretypes.ErrNodeNotExists
	}
	k := slotsOf(req, "slots-request")
	if k < 0 {
		return nil, coretypes.ErrInvaildDeployCount
	}
	if n.Used+k*int64(deployCount) > n.Cap {
		return nil, coretypes.ErrInsufficientResource
	}
	r := &plugintypes.CalculateDeployResponse{}
	for i := 0; i < deployCount; i++ {
		r.EnginesParams = append(r.EnginesParams, plugintypes.EngineParams{})
		r.WorkloadsResource = append(r.WorkloadsResource, plugintypes.WorkloadResource{"slots": k})
	}
	return r, nil
}

func (s *SlotsPlugin) CalculateRealloc(_ context.Context, nodename string, res plugintypes.WorkloadResource, req plugintypes.WorkloadResourceRequest) (*plugintypes.CalculateReallocResponse, error) {
	s.mu.Lock()
	defer s.mu.Unlock()
	n, ok := s.nodes[nodename]
	if !ok {
		return nil, coretypes.ErrNodeNotExists
	}
	old := slotsOf(res, "slots")
	d := slotsOf(req, "slots-request")
	if old+d < 0 {
		d = -old
	}
	if n.Used+d > n.Cap {
		return nil, coretypes.ErrInsufficientResource
	}
	return &plugintypes.CalculateReallocResponse{
		EngineParams:     plugintypes.EngineParams{},
		DeltaResource:    plugintypes.WorkloadResource{"slots": d},
		WorkloadResource: plugintypes.WorkloadResource{"slots": old + d},
	}, nil
}

func (s *SlotsPlugin) CalculateRemap(context.Context, string, map[string]plugintypes.WorkloadResource) (*plugintypes.CalculateRemapResponse, error) {
	return &plugintypes.CalculateRemapResponse{EngineParamsMap: map[string]plugintypes.EngineParams{}}, nil
}

func (s *SlotsPlugin) AddNode(_ context.Context, nodename string, req plugintypes.NodeResourceRequest, _ *enginetypes.Info) (*plugintypes.AddNodeResponse, error) {
	s.mu.Lock()
	defer s.mu.Unlock()
	if _, ok := s.nodes[nodename]; ok {
		return nil, coretypes.ErrNodeExists
	}
	c := slotsOf(req, "slots")
	if c <= 0 {
		c = SlotsDefaultCapacity
	}
	s.nodes[nodename] = &slotNode{Cap: c}
	return &plugintypes.AddNodeResponse{Capacity: nodeRes(c), Usage: nodeRes(0)}, nil
}

func (s *SlotsPlugin) RemoveNode(_ context.Context, nodename string) (*plugintypes.RemoveNodeResponse, error) {
	s.mu.Lock()
	defer s.mu.Unlock()
	delete(s.nodes, nodename) // like cpumem: removing an unknown node is not an error
	return &plugintypes.RemoveNodeResponse{}, nil
}

func (s *SlotsPlugin) GetNodesDeployCapacity(_ context.Context, nodenames []string, req plugintypes.WorkloadResourceRequest) (*plugintypes.GetNodesDeployCapacityResponse, error) {
	s.mu.Lock()
	defer s.mu.Unlock()
	k := slotsOf(req, "slots-request")
	r := &plugintypes.GetNodesDeployCapacityResponse{NodeDeployCapacityMap: map[string]*plugintypes.NodeDeployCapacity{}}
	for _, name := range nodenames {
		n, ok := s.nodes[name]
		if !ok {
			return nil, coretypes.ErrNodeNotExists
		}
		c := math.MaxInt64
		if k > 0 {
			c = int((n.Cap - n.Used) / k)
		}
		if c <= 0 {
			continue
		}
		r.NodeDeployCapacityMap[name] = &plugintypes.NodeDeployCapacity{Capacity: c, Usage: float64(n.Used) / float64(n.Cap), Rate: float64(k) / float64(n.Cap), Weight: 1}
		if r.Total == math.MaxInt64 || c == math.MaxInt64 {
			r.Total = math.MaxInt64
		} else {
			r.Total += c
		}
	}
	return r, nil
}

func (s *SlotsPlugin) SetNodeResourceCapacity(_ context.Context, nodename string, res plugintypes.NodeResource, req plugintypes.NodeResourceRequest, delta bool, incr bool) (*plugintypes.SetNodeResourceCapacityResponse, error) {
	s.mu.Lock()
	defer s.mu.Unlock()
	n, ok := s.nodes[nodename]
	if !ok {
		return nil, coretypes.ErrNodeNotExists
	}
	v := slotsOf(res, "slots")
	if req != nil {
		v = slotsOf(req, "slots")
	}
	before := n.Cap
	switch {
	case !delta:
		n.Cap = v
	case incr:
		n.Cap += v
	default:
		n.Cap -= v
	}
	return &plugintypes.SetNodeResourceCapacityResponse{Before: nodeRes(before), After: nodeRes(n.Cap)}, nil
}

func (s *SlotsPlugin) info(nodename string, wr []plugintypes.WorkloadResource, fix bool) (*plugintypes.GetNodeResourceInfoResponse, error) {
	s.mu.Lock()
	defer s.mu.Unlock()
	n, ok := s.nodes[nodename]
	if !ok {
		return nil, coretypes.ErrNodeNotExists
	}
	r := &plugintypes.GetNodeResourceInfoResponse{Capacity: nodeRes(n.Cap), Diffs: []string{}}
	if wr != nil {
		sum := int64(0)
		for _, w := range wr {
			sum += slotsOf(w, "slots")
		}
		if sum != n.Used {
			r.Diffs = append(r.Diffs, fmt.Sprintf("node.Slots != sum(workload.Slots): %d != %d", n.Used, sum))
			if fix {
				n.Used = sum
			}
		}
	}
	r.Usage = nodeRes(n.Used)
	return r, nil
}

func (s *SlotsPlugin) GetNodeResourceInfo(_ context.Context, nodename string, wr []plugintypes.WorkloadResource) (*plugintypes.GetNodeResourceInfoResponse, error) {
	return s.info(nodename, wr, false)
}

func (s *SlotsPlugin) FixNodeResource(_ context.Context, nodename string, wr []plugintypes.WorkloadResource) (*plugintypes.GetNodeResourceInfoResponse, error) {
	return s.info(nodename, wr, true)
}

func (s *SlotsPlugin) SetNodeResourceInfo(_ context.Context, nodename string, capacity plugintypes.NodeResource, usage plugintypes.NodeResource) (*plugintypes.SetNodeResourceInfoResponse, error) {
	s.mu.Lock()
	defer s.mu.Unlock()
	s.nodes[nodename] = &slotNode{Cap: slotsOf(capacity, "slots"), Used: slotsOf(usage, "slots")}
	return &plugintypes.SetNodeResourceInfoResponse{}, nil
}

func (s *SlotsPlugin) SetNodeResourceUsage(_ context.Context, nodename string, res plugintypes.NodeResource, req plugintypes.NodeResourceRequest, wr []plugintypes.WorkloadResource, delta bool, incr bool) (*plugintypes.SetNodeResourceUsageResponse, error) {
	s.mu.Lock()
	defer s.mu.Unlock()
	if s.FailUsageWrites > 0 {
		s.FailUsageWrites--
		if f := s.OnFailedUsageWrite; f != nil {
			f()
		}
		return nil, fmt.Errorf("slots: injected failure of a usage write")
	}
	n, ok := s.nodes[nodename]
	if !ok {
		return nil, coretypes.ErrNodeNotExists
	}
	v := int64(0)
	switch {
	case req != nil:
		v = slotsOf(req, "slots")
	case res != nil:
		v = slotsOf(res, "slots")
	default:
		for _, w := range wr {
			v += slotsOf(w, "slots")
		}
	}
	before := n.Used
	switch {
	case !delta:
		n.Used = v
	case incr:
		n.Used += v
	default:
		n.Used -= v
	}
	return &plugintypes.SetNodeResourceUsageResponse{Before: nodeRes(before), After: nodeRes(n.Used)}, nil
}

func (s *SlotsPlugin) GetMostIdleNode(_ context.Context, nodenames []string) (*plugintypes.GetMostIdleNodeResponse, error) {
	s.mu.Lock()
	defer s.mu.Unlock()
	names := append([]string{}, nodenames...)
	sort.Strings(names)
	best, bestFree := "", int64(-1)
	for _, name := range names {
		if n, ok := s.nodes[name]; ok && n.Cap-n.Used > bestFree {
			best, bestFree = name, n.Cap-n.Used
		}
	}
	return &plugintypes.GetMostIdleNodeResponse{Nodename: best, Priority: 1}, nil
}

func (s *SlotsPlugin) GetMetricsDescription(context.Context) (*plugintypes.GetMetricsDescriptionResponse, error) {
	r := plugintypes.GetMetricsDescriptionResponse{}
	return &r, nil
}

func (s *SlotsPlugin) GetMetrics(context.Context, string, string) (*plugintypes.GetMetricsResponse, error) {
	r := plugintypes.GetMetricsResponse{}
	return &r, nil
}
