// Package sim is the cluster simulator of the verification harness: recording / fault-injecting
// decorators ("shims") around calcium's store, resource manager, WAL, locks and engines, the global
// gate and event log, an in-memory container engine, and helpers to boot a real Calcium on embedded
// etcd (or miniredis) and to snapshot / check its state.
package sim

import (
	"bytes"
	"context"
	"errors"
	"fmt"
	"runtime"
	"strconv"
	"strings"
	"sync"
	"sync/atomic"
	"time"

	coretypes "github.com/projecteru2/core/types"
)

// ErrInjected is the error returned by a fail-before fault: the call did not happen.
var ErrInjected = errors.New("verif: injected failure")

// Event is one boundary event. Call and return events of one call share CallID.
type Event struct {
	Seq      int64  `json:"seq"`
	CallID   int64  `json:"call"`
	T        int64  `json:"t_ns"`
	Inst     string `json:"inst"`
	G        int64  `json:"g"`
	Layer    string `json:"layer"` // store | rmgr | wal | engine | lock
	Op       string `json:"op"`
	Arg      string `json:"arg,omitempty"`
	Ret      bool   `json:"ret,omitempty"`
	Err      string `json:"err,omitempty"`
	Injected bool   `json:"injected,omitempty"`
	Index    int    `json:"index,omitempty"` // position among the counted boundary calls since Arm (1-based), call events only
	Tag      string `json:"tag,omitempty"`   // operation label from the context's tracing id, where the shim has a context
}

// Name returns layer.op.
func (e *Event) Name() string { return e.Layer + "." + e.Op }

// FaultPlan describes the single fault of an operation.
type FaultPlan struct {
	Kind  string `json:"kind"`  // fail | crash | delay | none
	Index int    `json:"index"` // fire at the Index-th counted boundary call since Arm (1-based)
	// optional match: only calls whose layer.op equals Match are counted (empty = all gated calls)
	Match   string        `json:"match,omitempty"`
	// optional: calls whose layer.op is listed are never counted (steps that are compensations of the operations
	// of the round: the fault model is a single failure, compensating steps succeed)
	Exclude []string      `json:"exclude,omitempty"`
	Delay   time.Duration `json:"delay,omitempty"`
	Inst    string        `json:"inst,omitempty"` // crash: which instance dies; fail/delay: only this instance's calls count ("" = all)
	fired   int32
	FiredAt string // layer.op(arg) where it fired
}

// Fired reports whether the fault fired.
func (p *FaultPlan) Fired() bool { return p != nil && atomic.LoadInt32(&p.fired) == 1 }

// Boundary is the event log, the fault plan and the global gate shared by all shims of one process.
type Boundary struct {
	gate sync.RWMutex

	mu      sync.Mutex
	seq     int64
	callID  int64
	events  []Event
	keep    bool
	plan    *FaultPlan
	armed   bool
	counted int
	frozen  map[string]bool
	start   time.Time

	// OnCall, when set, runs before every gated call (after fault decision, before the real call) in the
	// calling goroutine WITHOUT the gate held; monitors use Quiesce inside it. It must not make boundary calls.
	OnCall func(ev Event)
	// OnDone, when set, runs after a gated call (or a Point) returned, in the calling goroutine.
	OnDone func(ev Event)

	inflight int64
	inflightBy map[string]*int64 // per instance, calls of container layers only (see Inflight)
	containers map[string]bool
	// delays: PRNG-free deterministic jitter: every n-th gated call sleeps d (0 = off)
	JitterEvery int64
	JitterDur   time.Duration
	jitterN     int64

	parked int64 // goroutines parked because their instance is frozen

	// Passthrough != 0: the boundary records nothing, injects nothing and takes NO lock (C34: the race detector
	// must not see the harness's own mutexes as synchronisation between core's goroutines)
	Passthrough int32
}

// NewBoundary creates the process-wide boundary.
func NewBoundary() *Boundary {
	return &Boundary{frozen: map[string]bool{}, start: time.Now(), keep: true}
}

func goid() int64 {
	var buf [64]byte
	n := runtime.Stack(buf[:], false)
	// "goroutine 123 [running]:"
	s := buf[:n]
	s = s[len("goroutine "):]
	i := bytes.IndexByte(s, ' ')
	id, _ := strconv.ParseInt(string(s[:i]), 10, 64)
	return id
}

// InstOf extracts the instance tag from a context's tracing id ("A/op12" -> "A"); "" if untagged.
func InstOf(ctx context.Context) string {
	if ctx == nil {
		return ""
	}
	if v, ok := ctx.Value(coretypes.TracingID).(string); ok {
		if i := strings.IndexByte(v, '/'); i > 0 {
			return v[:i]
		}
		return v
	}
	return ""
}

// Tag returns a context carrying the instance tag and an operation label.
func Tag(ctx context.Context, inst, op string) context.Context {
	return context.WithValue(ctx, coretypes.TracingID, inst+"/"+op)
}

// Arm installs the fault plan for the next operation and restarts the boundary-call counter.
func (b *Boundary) Arm(p *FaultPlan) {
	b.mu.Lock()
	b.plan = p
	b.armed = true
	b.counted = 0
	b.mu.Unlock()
}

// Disarm removes the fault plan and returns the number of counted calls since Arm.
func (b *Boundary) Disarm() int {
	b.mu.Lock()
	defer b.mu.Unlock()
	b.armed = false
	b.plan = nil
	return b.counted
}

// Counted returns the number of counted boundary calls since Arm.
func (b *Boundary) Counted() int { b.mu.Lock(); defer b.mu.Unlock(); return b.counted }

// ResetLog drops recorded events.
func (b *Boundary) ResetLog() { b.mu.Lock(); b.events = nil; b.mu.Unlock() }

// Events returns a copy of the recorded events.
func (b *Boundary) Events() []Event {
	b.mu.Lock()
	defer b.mu.Unlock()
	out := make([]Event, len(b.events))
	copy(out, b.events)
	return out
}

// EventsSince returns the events with Seq > seq.
func (b *Boundary) EventsSince(seq int64) []Event {
	b.mu.Lock()
	defer b.mu.Unlock()
	out := []Event{}
	for _, e := range b.events {
		if e.Seq > seq {
			out = append(out, e)
		}
	}
	return out
}

// Seq returns the current sequence number.
func (b *Boundary) Seq() int64 { b.mu.Lock(); defer b.mu.Unlock(); return b.seq }

// Freeze marks an instance dead: every later boundary call of that instance parks forever.
func (b *Boundary) Freeze(inst string) { b.mu.Lock(); b.frozen[inst] = true; b.mu.Unlock() }

// Frozen reports whether inst is dead.
func (b *Boundary) Frozen(inst string) bool { b.mu.Lock(); defer b.mu.Unlock(); return b.frozen[inst] }

// Parked returns the number of goroutines parked at the boundary of a dead instance.
func (b *Boundary) Parked() int64 { return atomic.LoadInt64(&b.parked) }

// Inflight returns the number of gated calls currently executing.
// Inflight is the number of gated calls in flight in instances that are alive. A gated call can be nested in another
// one (a plugin call inside a resource-manager call): when an instance dies inside the inner call, the outer call
// never returns; the calls of frozen (dead) instances are therefore not counted.
func (b *Boundary) Inflight() int64 {
	n := atomic.LoadInt64(&b.inflight)
	b.mu.Lock()
	for inst, dead := range b.frozen {
		if dead {
			if c, ok := b.inflightBy[inst]; ok {
				n -= atomic.LoadInt64(c)
			}
		}
	}
	b.mu.Unlock()
	return n
}

// ContainerLayers names the layers whose gated calls contain other gated calls (the resource manager when its
// plugins are decorated too). Only those calls of a dead instance are left out of Inflight: a leaf call of a dead
// instance that is really executing still completes and is waited for, a leaf call that was stopped never counted.
func (b *Boundary) SetContainerLayers(layers ...string) {
	b.mu.Lock()
	b.containers = map[string]bool{}
	for _, l := range layers {
		b.containers[l] = true
	}
	b.mu.Unlock()
}

func (b *Boundary) isContainer(layer string) bool {
	b.mu.Lock()
	defer b.mu.Unlock()
	return b.containers[layer]
}

func (b *Boundary) instCounter(inst string) *int64 {
	b.mu.Lock()
	defer b.mu.Unlock()
	if b.inflightBy == nil {
		b.inflightBy = map[string]*int64{}
	}
	c, ok := b.inflightBy[inst]
	if !ok {
		c = new(int64)
		b.inflightBy[inst] = c
	}
	return c
}

// Quiesce runs f while no gated boundary call is in flight and none can start.
func (b *Boundary) Quiesce(f func()) {
	b.gate.Lock()
	defer b.gate.Unlock()
	f()
}

func (b *Boundary) record(ev Event) Event {
	b.mu.Lock()
	b.seq++
	ev.Seq = b.seq
	ev.T = int64(time.Since(b.start))
	if b.keep && len(b.events) < 200000 {
		b.events = append(b.events, ev)
	}
	b.mu.Unlock()
	return ev
}

func (b *Boundary) park() {
	atomic.AddInt64(&b.parked, 1)
	select {}
}

// Note records a non-gated event (lock operations, stream events, harness markers).
func (b *Boundary) Note(inst, layer, op, arg string, err error) {
	if atomic.LoadInt32(&b.Passthrough) != 0 {
		return
	}
	ev := Event{Inst: inst, G: goid(), Layer: layer, Op: op, Arg: arg}
	if err != nil {
		ev.Err = err.Error()
	}
	b.record(ev)
}

// Call announces a gated boundary call. It returns done (to be called with the real call's error after it
// returned) and, for a fail-before fault, a non-nil injected error: the caller must then NOT perform the
// real call and must still call done(injected).
func (b *Boundary) Call(inst, layer, op, arg string) (done func(err error), injected error) {
	if b == nil || atomic.LoadInt32(&b.Passthrough) != 0 {
		return func(error) {}, nil
	}
	b.mu.Lock()
	if b.frozen[inst] {
		b.mu.Unlock()
		b.park()
	}
	b.callID++
	id := b.callID
	ev := Event{CallID: id, Inst: inst, G: goid(), Layer: layer, Op: op, Arg: arg}
	var fire *FaultPlan
	if b.armed {
		p := b.plan
		count := p == nil || ((p.Match == "" || p.Match == layer+"."+op) && (p.Kind == "crash" || p.Inst == "" || p.Inst == inst))
		if count && p != nil {
			for _, x := range p.Exclude {
				if x == layer+"."+op {
					count = false
				}
			}
		}
		if count {
			b.counted++
			ev.Index = b.counted
			if p != nil && p.Kind != "none" && p.Kind != "" && b.counted == p.Index && atomic.CompareAndSwapInt32(&p.fired, 0, 1) {
				fire = p
				p.FiredAt = fmt.Sprintf("%s.%s(%s)", layer, op, arg)
			}
		}
	}
	if fire != nil && fire.Kind == "crash" {
		victim := fire.Inst
		if victim == "" {
			victim = inst
		}
		b.frozen[victim] = true
		ev.Injected = true
		ev.Err = "crash"
		b.mu.Unlock()
		b.record(ev)
		if victim == inst {
			b.park()
		}
	} else {
		b.mu.Unlock()
	}
	if fire != nil && fire.Kind == "fail" {
		ev.Injected = true
		b.record(ev)
		return func(error) {
			b.record(Event{CallID: id, Inst: inst, G: ev.G, Layer: layer, Op: op, Arg: arg, Ret: true, Err: ErrInjected.Error(), Injected: true})
		}, fmt.Errorf("%w at %s.%s", ErrInjected, layer, op)
	}
	if fire != nil && fire.Kind == "delay" {
		time.Sleep(fire.Delay)
	}
	if n := atomic.LoadInt64(&b.JitterEvery); n > 0 {
		if atomic.AddInt64(&b.jitterN, 1)%n == 0 {
			time.Sleep(b.JitterDur)
		}
	}
	if hook := b.OnCall; hook != nil {
		hook(ev)
	}
	b.gate.RLock()
	var ic *int64
	if b.isContainer(layer) {
		ic = b.instCounter(inst)
	} else {
		ic = new(int64)
	}
	atomic.AddInt64(&b.inflight, 1)
	atomic.AddInt64(ic, 1)
	if fire == nil || fire.Kind != "crash" {
		b.record(ev)
	}
	return func(err error) {
		r := Event{CallID: id, Inst: inst, G: ev.G, Layer: layer, Op: op, Arg: arg, Ret: true}
		if err != nil {
			r.Err = err.Error()
		}
		b.record(r)
		atomic.AddInt64(&b.inflight, -1)
		atomic.AddInt64(ic, -1)
		b.gate.RUnlock()
		if hook := b.OnDone; hook != nil {
			hook(r)
		}
	}, nil
}

// TagOf returns the whole tracing id of a context ("A/op12"), "" if there is none.
func TagOf(ctx context.Context) string {
	if ctx == nil {
		return ""
	}
	if v, ok := ctx.Value(coretypes.TracingID).(string); ok {
		return v
	}
	return ""
}

// Point announces an un-gated step nested inside a gated call (a meta.KV call inside a store operation): it is
// recorded and offered to the OnCall / OnDone hooks (the interleaving scheduler), but it neither takes the gate
// nor counts for fault plans. The returned func must be called when the step returned.
func (b *Boundary) Point(inst, layer, op, arg, tag string) (done func(err error)) {
	if b == nil || atomic.LoadInt32(&b.Passthrough) != 0 {
		return func(error) {}
	}
	b.mu.Lock()
	if b.frozen[inst] {
		b.mu.Unlock()
		b.park()
	}
	b.callID++
	id := b.callID
	b.mu.Unlock()
	ev := Event{CallID: id, Inst: inst, G: goid(), Layer: layer, Op: op, Arg: arg, Tag: tag}
	if hook := b.OnCall; hook != nil {
		hook(ev)
	}
	b.record(ev)
	return func(err error) {
		r := Event{CallID: id, Inst: inst, G: ev.G, Layer: layer, Op: op, Arg: arg, Ret: true, Tag: tag}
		if err != nil {
			r.Err = err.Error()
		}
		b.record(r)
		if hook := b.OnDone; hook != nil {
			hook(r)
		}
	}
}
