package sim

// memengine: a stateful in-memory engine.API registered under "verif://<host>". One Host per endpoint,
// shared by every Calcium instance of the process (it models the daemon on the node, which survives a
// core crash). Effectful calls pass the boundary (gate, log, faults); Ping/Info/GetParams do not.

import (
	"sync/atomic"
	"bytes"
	"context"
	"crypto/rand"
	"encoding/hex"
	"fmt"
	"io"
	"sort"
	"strings"
	"sync"
	"time"

	"github.com/projecteru2/core/engine"
	enginefactory "github.com/projecteru2/core/engine/factory"
	enginetypes "github.com/projecteru2/core/engine/types"
	resourcetypes "github.com/projecteru2/core/resource/types"
	coresource "github.com/projecteru2/core/source"
	coretypes "github.com/projecteru2/core/types"
)

// Prefix is the endpoint prefix of the in-memory engine.
const Prefix = "verif://"

// File is a file stored in a container.
type File struct {
	Content []byte
	UID     int
	GID     int
	Mode    int64
}

// Container is the state of one container on a host.
type Container struct {
	ID           string
	Name         string
	Labels       map[string]string
	Image        string
	User         string
	Env          []string
	EngineParams resourcetypes.Resources
	Lambda       bool
	Stdin        bool
	Ancestor     string
	State        string // created | running | stopped
	Suspended    bool
	Files        map[string]File
	Updates      []resourcetypes.Resources // VirtualizationUpdateResource history
	CreatedBy    string                    // instance tag
	CreatedSeq   int64
	StartCount   int
}

// LambdaScript scripts what a container's logs / wait report.
type LambdaScript struct {
	Stdout   []string
	Stderr   []string
	ExitCode int64
	LogsErr  error
	WaitErr  error
	AttachErr error
}

// CopyBehaviour scripts VirtualizationCopyChunkTo / CopyTo.
type CopyBehaviour struct {
	Mode      string // ok | error | partial | slow (a reader slower than the producer: waits, then reads small pieces)
	ReadBytes int64  // partial: read this many bytes, then fail
}

// Host is the daemon of one node.
type Host struct {
	mu         sync.Mutex
	Name       string
	Endpoint   string
	NCPU       int
	MemTotal   int64
	containers map[string]*Container
	removed    map[string]*Container
	script     func(c *Container) LambdaScript
	copyB      func(id, path string) CopyBehaviour
	down       bool
	// FailCreateEvery > 0: every n-th VirtualizationCreate on this host is rejected (stress workloads)
	FailCreateEvery int64
	createN         int64
	// InfoDelayNs > 0: Info takes that long (atomic)
	InfoDelayNs int64
	calls      map[string]int
}

var (
	registryMu sync.Mutex
	hosts      = map[string]*Host{}
	theBoundary *Boundary
	registered bool
)

// RegisterEngine plugs the in-memory engine into core's engine factory (hook VerifRegisterEngine).
func RegisterEngine(b *Boundary) {
	registryMu.Lock()
	defer registryMu.Unlock()
	theBoundary = b
	if registered {
		return
	}
	registered = true
	enginefactory.VerifRegisterEngine(Prefix, makeClient)
}

// NewHost creates (or returns) the host behind endpoint verif://<name>.
func NewHost(name string, ncpu int, mem int64) *Host {
	registryMu.Lock()
	defer registryMu.Unlock()
	ep := Prefix + name
	if h, ok := hosts[ep]; ok {
		return h
	}
	h := &Host{Name: name, Endpoint: ep, NCPU: ncpu, MemTotal: mem, containers: map[string]*Container{}, removed: map[string]*Container{}, calls: map[string]int{}}
	hosts[ep] = h
	return h
}

// GetHost returns the host of an endpoint.
func GetHost(endpoint string) *Host {
	registryMu.Lock()
	defer registryMu.Unlock()
	return hosts[endpoint]
}

// ResetHosts forgets all hosts (between histories).
func ResetHosts() {
	registryMu.Lock()
	hosts = map[string]*Host{}
	registryMu.Unlock()
}

// SetLambdaScript installs the log/wait script.
func (h *Host) SetLambdaScript(f func(c *Container) LambdaScript) { h.mu.Lock(); h.script = f; h.mu.Unlock() }

// SetCopyBehaviour installs the copy behaviour script.
func (h *Host) SetCopyBehaviour(f func(id, path string) CopyBehaviour) { h.mu.Lock(); h.copyB = f; h.mu.Unlock() }

// SetDown makes Ping fail (engine unreachable).
func (h *Host) SetDown(d bool) { h.mu.Lock(); h.down = d; h.mu.Unlock() }

// Containers returns a deep-ish copy of the live containers.
func (h *Host) Containers() map[string]Container {
	h.mu.Lock()
	defer h.mu.Unlock()
	out := map[string]Container{}
	for id, c := range h.containers {
		cc := *c
		cc.Files = map[string]File{}
		for p, f := range c.Files {
			cc.Files[p] = f
		}
		cc.Updates = append([]resourcetypes.Resources(nil), c.Updates...)
		out[id] = cc
	}
	return out
}

// Get returns a copy of one live container.
func (h *Host) Get(id string) (Container, bool) {
	h.mu.Lock()
	defer h.mu.Unlock()
	c, ok := h.containers[id]
	if !ok {
		return Container{}, false
	}
	cc := *c
	cc.Files = map[string]File{}
	for p, f := range c.Files {
		cc.Files[p] = f
	}
	return cc, true
}

// WasRemoved reports whether a container with this id existed and was removed.
func (h *Host) WasRemoved(id string) bool { h.mu.Lock(); defer h.mu.Unlock(); _, ok := h.removed[id]; return ok }

// Engine is the engine.API of one host as seen by core.
type Engine struct {
	host   *Host
	params *enginetypes.Params
}

func makeClient(_ context.Context, _ coretypes.Config, nodename, endpoint, ca, cert, key string) (engine.API, error) {
	h := GetHost(endpoint)
	if h == nil {
		return nil, fmt.Errorf("memengine: unknown host %s", endpoint)
	}
	return &Engine{host: h, params: &enginetypes.Params{Nodename: nodename, Endpoint: endpoint, CA: ca, Cert: cert, Key: key}}, nil
}

var _ engine.API = (*Engine)(nil)

func newID() string {
	var b [32]byte
	_, _ = rand.Read(b[:])
	return hex.EncodeToString(b[:])
}

// gated wraps an effectful engine call.
func (e *Engine) gated(ctx context.Context, op, arg string, f func() error) error {
	inst := InstOf(ctx)
	done, ierr := theBoundary.Call(inst, "engine", op, e.host.Name+":"+arg)
	if ierr != nil {
		done(ierr)
		return ierr
	}
	e.host.mu.Lock()
	e.host.calls[op]++
	e.host.mu.Unlock()
	err := f()
	done(err)
	return err
}

func short(id string) string {
	if len(id) > 8 {
		return id[:8]
	}
	return id
}

// Info .
func (e *Engine) Info(ctx context.Context) (*enginetypes.Info, error) {
	if d := time.Duration(atomic.LoadInt64(&e.host.InfoDelayNs)); d > 0 {
		// a slow daemon: it answers after InfoDelay; when the caller's context ends first it reports that, a little late
		select {
		case <-time.After(d):
		case <-ctx.Done():
			time.Sleep(30 * time.Millisecond)
			return nil, ctx.Err()
		}
	}
	return &enginetypes.Info{Type: "verif", ID: e.host.Name, NCPU: e.host.NCPU, MemTotal: e.host.MemTotal}, nil
}

// Ping .
func (e *Engine) Ping(context.Context) error {
	e.host.mu.Lock()
	defer e.host.mu.Unlock()
	if e.host.down {
		return fmt.Errorf("memengine: host %s unreachable", e.host.Name)
	}
	return nil
}

// CloseConn .
func (e *Engine) CloseConn() error { return nil }

// GetParams .
func (e *Engine) GetParams() *enginetypes.Params { return e.params }

// Execute .
func (e *Engine) Execute(ctx context.Context, ID string, config *enginetypes.ExecConfig) (string, io.ReadCloser, io.ReadCloser, io.WriteCloser, error) {
	var out io.ReadCloser
	err := e.gated(ctx, "Execute", short(ID), func() error {
		e.host.mu.Lock()
		defer e.host.mu.Unlock()
		if _, ok := e.host.containers[ID]; !ok {
			return coretypes.ErrWorkloadNotExists
		}
		out = io.NopCloser(strings.NewReader("ok\n"))
		return nil
	})
	if err != nil {
		return "", nil, nil, nil, err
	}
	return "exec-" + short(ID), out, io.NopCloser(strings.NewReader("")), nil, nil
}

// ExecResize .
func (e *Engine) ExecResize(context.Context, string, uint, uint) error { return nil }

// ExecExitCode .
func (e *Engine) ExecExitCode(context.Context, string, string) (int, error) { return 0, nil }

// NetworkConnect .
func (e *Engine) NetworkConnect(context.Context, string, string, string, string) ([]string, error) {
	return nil, nil
}

// NetworkDisconnect .
func (e *Engine) NetworkDisconnect(context.Context, string, string, bool) error { return nil }

// NetworkList .
func (e *Engine) NetworkList(context.Context, []string) ([]*enginetypes.Network, error) {
	return nil, nil
}

// ImageList .
func (e *Engine) ImageList(context.Context, string) ([]*enginetypes.Image, error) { return nil, nil }

// ImageRemove .
func (e *Engine) ImageRemove(context.Context, string, bool, bool) ([]string, error) { return nil, nil }

// ImagesPrune .
func (e *Engine) ImagesPrune(context.Context) error { return nil }

// ImagePull .
func (e *Engine) ImagePull(ctx context.Context, ref string, _ bool) (io.ReadCloser, error) {
	err := e.gated(ctx, "ImagePull", ref, func() error { return nil })
	if err != nil {
		return nil, err
	}
	return io.NopCloser(strings.NewReader("pulled\n")), nil
}

// ImagePush .
func (e *Engine) ImagePush(context.Context, string) (io.ReadCloser, error) {
	return io.NopCloser(strings.NewReader("")), nil
}

// ImageBuild .
func (e *Engine) ImageBuild(context.Context, io.Reader, []string, string) (io.ReadCloser, error) {
	return io.NopCloser(strings.NewReader("")), nil
}

// ImageBuildCachePrune .
func (e *Engine) ImageBuildCachePrune(context.Context, bool) (uint64, error) { return 0, nil }

// ImageLocalDigests .
func (e *Engine) ImageLocalDigests(context.Context, string) ([]string, error) {
	return []string{"sha256:verif"}, nil
}

// ImageRemoteDigest .
func (e *Engine) ImageRemoteDigest(context.Context, string) (string, error) { return "sha256:verif", nil }

// ImageBuildFromExist .
func (e *Engine) ImageBuildFromExist(context.Context, string, []string, string) (string, error) {
	return "", nil
}

// BuildRefs .
func (e *Engine) BuildRefs(context.Context, *enginetypes.BuildRefOptions) []string { return nil }

// BuildContent .
func (e *Engine) BuildContent(context.Context, coresource.Source, *enginetypes.BuildContentOptions) (string, io.Reader, error) {
	return "", nil, coretypes.ErrEngineNotImplemented
}

// VirtualizationCreate .
func (e *Engine) VirtualizationCreate(ctx context.Context, opts *enginetypes.VirtualizationCreateOptions) (*enginetypes.VirtualizationCreated, error) {
	var created *enginetypes.VirtualizationCreated
	err := e.gated(ctx, "VirtualizationCreate", opts.Name, func() error {
		if n := atomic.LoadInt64(&e.host.FailCreateEvery); n > 0 && atomic.AddInt64(&e.host.createN, 1)%n == 0 {
			return fmt.Errorf("memengine: create rejected (every %d-th)", n)
		}
		c := &Container{ID: newID(), Name: opts.Name, Labels: map[string]string{}, Image: opts.Image, User: opts.User, Env: append([]string(nil), opts.Env...),
			EngineParams: opts.EngineParams, Lambda: opts.Lambda, Stdin: opts.Stdin, Ancestor: opts.AncestorWorkloadID, State: "created", Files: map[string]File{}, CreatedBy: InstOf(ctx)}
		for k, v := range opts.Labels {
			c.Labels[k] = v
		}
		if theBoundary != nil {
			c.CreatedSeq = theBoundary.Seq()
		}
		e.host.mu.Lock()
		e.host.containers[c.ID] = c
		e.host.mu.Unlock()
		created = &enginetypes.VirtualizationCreated{ID: c.ID, Name: c.Name, Labels: map[string]string{}}
		return nil
	})
	return created, err
}

func (e *Engine) copyBehaviour(id, path string) CopyBehaviour {
	e.host.mu.Lock()
	f := e.host.copyB
	e.host.mu.Unlock()
	if f == nil {
		return CopyBehaviour{Mode: "ok"}
	}
	return f(id, path)
}

// VirtualizationCopyTo .
func (e *Engine) VirtualizationCopyTo(ctx context.Context, ID, target string, content []byte, uid, gid int, mode int64) error {
	return e.VirtualizationCopyChunkTo(ctx, ID, target, int64(len(content)), bytes.NewReader(content), uid, gid, mode)
}

// VirtualizationCopyChunkTo .
func (e *Engine) VirtualizationCopyChunkTo(ctx context.Context, ID, target string, size int64, content io.Reader, uid, gid int, mode int64) error {
	return e.gated(ctx, "VirtualizationCopyChunkTo", short(ID)+":"+target, func() error {
		e.host.mu.Lock()
		_, ok := e.host.containers[ID]
		e.host.mu.Unlock()
		if !ok {
			return coretypes.ErrWorkloadNotExists
		}
		b := e.copyBehaviour(ID, target)
		switch b.Mode {
		case "error":
			return fmt.Errorf("memengine: copy to %s rejected", short(ID))
		case "partial":
			_, _ = io.CopyN(io.Discard, content, b.ReadBytes)
			return fmt.Errorf("memengine: copy to %s aborted after %d bytes", short(ID), b.ReadBytes)
		}
		var data []byte
		var err error
		if b.Mode == "slow" {
			time.Sleep(40 * time.Millisecond)
			buf := make([]byte, 700)
			for {
				n, rerr := content.Read(buf)
				data = append(data, buf[:n]...)
				if rerr == io.EOF {
					break
				}
				if rerr != nil {
					return rerr
				}
				time.Sleep(150 * time.Microsecond)
			}
		} else if data, err = io.ReadAll(content); err != nil {
			return err
		}
		e.host.mu.Lock()
		defer e.host.mu.Unlock()
		c, ok := e.host.containers[ID]
		if !ok {
			return coretypes.ErrWorkloadNotExists
		}
		c.Files[target] = File{Content: data, UID: uid, GID: gid, Mode: mode}
		return nil
	})
}

func (e *Engine) withContainer(ctx context.Context, op, ID string, f func(c *Container) error) error {
	return e.gated(ctx, op, short(ID), func() error {
		e.host.mu.Lock()
		defer e.host.mu.Unlock()
		c, ok := e.host.containers[ID]
		if !ok {
			return coretypes.ErrWorkloadNotExists
		}
		return f(c)
	})
}

// VirtualizationStart .
func (e *Engine) VirtualizationStart(ctx context.Context, ID string) error {
	return e.withContainer(ctx, "VirtualizationStart", ID, func(c *Container) error {
		c.State = "running"
		c.StartCount++
		return nil
	})
}

// VirtualizationStop .
func (e *Engine) VirtualizationStop(ctx context.Context, ID string, _ time.Duration) error {
	return e.withContainer(ctx, "VirtualizationStop", ID, func(c *Container) error {
		c.State = "stopped"
		return nil
	})
}

// VirtualizationRemove .
func (e *Engine) VirtualizationRemove(ctx context.Context, ID string, _, force bool) error {
	return e.gated(ctx, "VirtualizationRemove", short(ID), func() error {
		e.host.mu.Lock()
		defer e.host.mu.Unlock()
		c, ok := e.host.containers[ID]
		if !ok {
			return coretypes.ErrWorkloadNotExists
		}
		if c.State == "running" && !force { // like docker: a running container is only removed with force
			return fmt.Errorf("memengine: cannot remove running container %s without force", short(ID))
		}
		delete(e.host.containers, ID)
		e.host.removed[ID] = c
		return nil
	})
}

// VirtualizationSuspend .
func (e *Engine) VirtualizationSuspend(ctx context.Context, ID string) error {
	return e.withContainer(ctx, "VirtualizationSuspend", ID, func(c *Container) error { c.Suspended = true; return nil })
}

// VirtualizationResume .
func (e *Engine) VirtualizationResume(ctx context.Context, ID string) error {
	return e.withContainer(ctx, "VirtualizationResume", ID, func(c *Container) error { c.Suspended = false; return nil })
}

// VirtualizationInspect .
func (e *Engine) VirtualizationInspect(ctx context.Context, ID string) (*enginetypes.VirtualizationInfo, error) {
	var info *enginetypes.VirtualizationInfo
	err := e.withContainer(ctx, "VirtualizationInspect", ID, func(c *Container) error {
		labels := map[string]string{}
		for k, v := range c.Labels {
			labels[k] = v
		}
		info = &enginetypes.VirtualizationInfo{ID: c.ID, User: c.User, Image: c.Image, Running: c.State == "running", Env: c.Env, Labels: labels, Networks: map[string]string{}}
		return nil
	})
	return info, err
}

func (e *Engine) scriptFor(ID string) (LambdaScript, bool) {
	e.host.mu.Lock()
	defer e.host.mu.Unlock()
	c, ok := e.host.containers[ID]
	if !ok {
		return LambdaScript{}, false
	}
	if e.host.script == nil {
		return LambdaScript{Stdout: []string{"hello"}, ExitCode: 0}, true
	}
	return e.host.script(c), true
}

// VirtualizationLogs .
func (e *Engine) VirtualizationLogs(ctx context.Context, opts *enginetypes.VirtualizationLogStreamOptions) (io.ReadCloser, io.ReadCloser, error) {
	var so, se io.ReadCloser
	err := e.gated(ctx, "VirtualizationLogs", short(opts.ID), func() error {
		s, ok := e.scriptFor(opts.ID)
		if !ok {
			return coretypes.ErrWorkloadNotExists
		}
		if s.LogsErr != nil {
			return s.LogsErr
		}
		so = io.NopCloser(strings.NewReader(joinLines(s.Stdout)))
		se = io.NopCloser(strings.NewReader(joinLines(s.Stderr)))
		return nil
	})
	return so, se, err
}

func joinLines(l []string) string {
	if len(l) == 0 {
		return ""
	}
	return strings.Join(l, "\n") + "\n"
}

type nopWriteCloser struct{ io.Writer }

func (nopWriteCloser) Close() error { return nil }

// VirtualizationAttach .
func (e *Engine) VirtualizationAttach(ctx context.Context, ID string, _, _ bool) (io.ReadCloser, io.ReadCloser, io.WriteCloser, error) {
	var so, se io.ReadCloser
	err := e.gated(ctx, "VirtualizationAttach", short(ID), func() error {
		s, ok := e.scriptFor(ID)
		if !ok {
			return coretypes.ErrWorkloadNotExists
		}
		if s.AttachErr != nil {
			return s.AttachErr
		}
		so = io.NopCloser(strings.NewReader(joinLines(s.Stdout)))
		se = io.NopCloser(strings.NewReader(joinLines(s.Stderr)))
		return nil
	})
	if err != nil {
		return nil, nil, nil, err
	}
	return so, se, nopWriteCloser{io.Discard}, nil
}

// VirtualizationResize .
func (e *Engine) VirtualizationResize(context.Context, string, uint, uint) error { return nil }

// VirtualizationWait .
func (e *Engine) VirtualizationWait(ctx context.Context, ID, _ string) (*enginetypes.VirtualizationWaitResult, error) {
	var r *enginetypes.VirtualizationWaitResult
	err := e.gated(ctx, "VirtualizationWait", short(ID), func() error {
		s, ok := e.scriptFor(ID)
		if !ok {
			return coretypes.ErrWorkloadNotExists
		}
		if s.WaitErr != nil {
			return s.WaitErr
		}
		e.host.mu.Lock()
		if c, ok := e.host.containers[ID]; ok {
			c.State = "stopped"
		}
		e.host.mu.Unlock()
		r = &enginetypes.VirtualizationWaitResult{Code: s.ExitCode, Message: "exited"}
		return nil
	})
	return r, err
}

// VirtualizationUpdateResource .
func (e *Engine) VirtualizationUpdateResource(ctx context.Context, ID string, params resourcetypes.Resources) error {
	return e.withContainer(ctx, "VirtualizationUpdateResource", ID, func(c *Container) error {
		c.Updates = append(c.Updates, params)
		return nil
	})
}

// VirtualizationCopyFrom .
func (e *Engine) VirtualizationCopyFrom(ctx context.Context, ID, path string) ([]byte, int, int, int64, error) {
	var f File
	err := e.withContainer(ctx, "VirtualizationCopyFrom", ID, func(c *Container) error {
		var ok bool
		if f, ok = c.Files[path]; !ok {
			return fmt.Errorf("memengine: no such file %s", path)
		}
		return nil
	})
	return f.Content, f.UID, f.GID, f.Mode, err
}

// RawEngine .
func (e *Engine) RawEngine(context.Context, *enginetypes.RawEngineOptions) (*enginetypes.RawEngineResult, error) {
	return nil, coretypes.ErrEngineNotImplemented
}

// SortedIDs returns the ids of the live containers in order.
func (h *Host) SortedIDs() []string {
	h.mu.Lock()
	defer h.mu.Unlock()
	ids := make([]string, 0, len(h.containers))
	for id := range h.containers {
		ids = append(ids, id)
	}
	sort.Strings(ids)
	return ids
}

// Reset forgets all containers of the host (between rebuilt states; the Host object itself stays because
// core caches engine objects per endpoint).
func (h *Host) Reset() {
	h.mu.Lock()
	h.containers = map[string]*Container{}
	h.removed = map[string]*Container{}
	h.script = nil
	h.copyB = nil
	h.down = false
	h.calls = map[string]int{}
	h.mu.Unlock()
}

// ResetAllHosts resets every host.
func ResetAllHosts() {
	registryMu.Lock()
	hs := []*Host{}
	for _, h := range hosts {
		hs = append(hs, h)
	}
	registryMu.Unlock()
	for _, h := range hs {
		h.Reset()
	}
}
