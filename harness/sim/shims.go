package sim

// Recording / fault-injecting decorators around calcium's store, resource manager, WAL and locks.

import (
	"context"
	"fmt"
	"sort"
	"strings"
	"sync"
	"time"

	enginetypes "github.com/projecteru2/core/engine/types"
	"github.com/projecteru2/core/lock"
	"github.com/projecteru2/core/resource"
	plugintypes "github.com/projecteru2/core/resource/plugins/types"
	resourcetypes "github.com/projecteru2/core/resource/types"
	"github.com/projecteru2/core/store"
	"github.com/projecteru2/core/types"
	"github.com/projecteru2/core/wal"
)

// ---- store ------------------------------------------------------------------------------------

// StoreShim decorates a store.Store.
type StoreShim struct {
	Real store.Store
	B    *Boundary
	Inst string
	Locks *LockTable
}

var _ store.Store = (*StoreShim)(nil)

func (s *StoreShim) gate(op, arg string, f func() error) error {
	done, ierr := s.B.Call(s.Inst, "store", op, arg)
	if ierr != nil {
		done(ierr)
		return ierr
	}
	err := f()
	done(err)
	return err
}

func (s *StoreShim) ServiceStatusStream(ctx context.Context) (chan []string, error) {
	return s.Real.ServiceStatusStream(ctx)
}
func (s *StoreShim) RegisterService(ctx context.Context, a string, d time.Duration) (<-chan struct{}, func(), error) {
	return s.Real.RegisterService(ctx, a, d)
}
func (s *StoreShim) StartEphemeral(ctx context.Context, path string, hb time.Duration) (<-chan struct{}, func(), error) {
	return s.Real.StartEphemeral(ctx, path, hb)
}
func (s *StoreShim) AddPod(ctx context.Context, name, desc string) (p *types.Pod, err error) {
	err = s.gate("AddPod", name, func() error { p, err = s.Real.AddPod(ctx, name, desc); return err })
	return
}
func (s *StoreShim) GetPod(ctx context.Context, podname string) (p *types.Pod, err error) {
	err = s.gate("GetPod", podname, func() error { p, err = s.Real.GetPod(ctx, podname); return err })
	return
}
func (s *StoreShim) RemovePod(ctx context.Context, podname string) error {
	return s.gate("RemovePod", podname, func() error { return s.Real.RemovePod(ctx, podname) })
}
func (s *StoreShim) GetAllPods(ctx context.Context) (p []*types.Pod, err error) {
	err = s.gate("GetAllPods", "", func() error { p, err = s.Real.GetAllPods(ctx); return err })
	return
}
func (s *StoreShim) AddNode(ctx context.Context, o *types.AddNodeOptions) (n *types.Node, err error) {
	err = s.gate("AddNode", o.Nodename, func() error { n, err = s.Real.AddNode(ctx, o); return err })
	return
}
func (s *StoreShim) RemoveNode(ctx context.Context, node *types.Node) error {
	name := ""
	if node != nil {
		name = node.Name
	}
	return s.gate("RemoveNode", name, func() error { return s.Real.RemoveNode(ctx, node) })
}
func (s *StoreShim) GetNode(ctx context.Context, nodename string) (n *types.Node, err error) {
	err = s.gate("GetNode", nodename, func() error { n, err = s.Real.GetNode(ctx, nodename); return err })
	return
}
func (s *StoreShim) GetNodes(ctx context.Context, nodenames []string) (n []*types.Node, err error) {
	err = s.gate("GetNodes", strings.Join(nodenames, ","), func() error { n, err = s.Real.GetNodes(ctx, nodenames); return err })
	return
}
func (s *StoreShim) GetNodesByPod(ctx context.Context, nf *types.NodeFilter, opts ...store.Option) (n []*types.Node, err error) {
	err = s.gate("GetNodesByPod", nf.Podname, func() error { n, err = s.Real.GetNodesByPod(ctx, nf, opts...); return err })
	return
}
func (s *StoreShim) UpdateNodes(ctx context.Context, nodes ...*types.Node) error {
	names := []string{}
	for _, n := range nodes {
		names = append(names, n.Name)
	}
	return s.gate("UpdateNodes", strings.Join(names, ","), func() error { return s.Real.UpdateNodes(ctx, nodes...) })
}
func (s *StoreShim) SetNodeStatus(ctx context.Context, node *types.Node, ttl int64) error {
	return s.gate("SetNodeStatus", fmt.Sprintf("%s,%d", node.Name, ttl), func() error { return s.Real.SetNodeStatus(ctx, node, ttl) })
}
func (s *StoreShim) GetNodeStatus(ctx context.Context, nodename string) (*types.NodeStatus, error) {
	return s.Real.GetNodeStatus(ctx, nodename)
}
func (s *StoreShim) NodeStatusStream(ctx context.Context) chan *types.NodeStatus {
	return s.Real.NodeStatusStream(ctx)
}
func (s *StoreShim) LoadNodeCert(ctx context.Context, node *types.Node) error {
	return s.Real.LoadNodeCert(ctx, node)
}
func (s *StoreShim) AddWorkload(ctx context.Context, w *types.Workload, p *types.Processing) error {
	arg := short(w.ID) + "@" + w.Nodename
	if p != nil {
		arg += ",processing"
	}
	return s.gate("AddWorkload", arg, func() error { return s.Real.AddWorkload(ctx, w, p) })
}
func (s *StoreShim) UpdateWorkload(ctx context.Context, w *types.Workload) error {
	return s.gate("UpdateWorkload", short(w.ID), func() error { return s.Real.UpdateWorkload(ctx, w) })
}
func (s *StoreShim) RemoveWorkload(ctx context.Context, w *types.Workload) error {
	return s.gate("RemoveWorkload", short(w.ID), func() error { return s.Real.RemoveWorkload(ctx, w) })
}
func (s *StoreShim) GetWorkload(ctx context.Context, id string) (w *types.Workload, err error) {
	err = s.gate("GetWorkload", short(id), func() error { w, err = s.Real.GetWorkload(ctx, id); return err })
	return
}
func (s *StoreShim) GetWorkloads(ctx context.Context, ids []string) (w []*types.Workload, err error) {
	sh := []string{}
	for _, id := range ids {
		sh = append(sh, short(id))
	}
	err = s.gate("GetWorkloads", strings.Join(sh, ","), func() error { w, err = s.Real.GetWorkloads(ctx, ids); return err })
	return
}
func (s *StoreShim) GetWorkloadStatus(ctx context.Context, id string) (*types.StatusMeta, error) {
	return s.Real.GetWorkloadStatus(ctx, id)
}
func (s *StoreShim) SetWorkloadStatus(ctx context.Context, st *types.StatusMeta, ttl int64) error {
	return s.gate("SetWorkloadStatus", short(st.ID), func() error { return s.Real.SetWorkloadStatus(ctx, st, ttl) })
}
func (s *StoreShim) ListWorkloads(ctx context.Context, app, entry, node string, limit int64, labels map[string]string) (w []*types.Workload, err error) {
	err = s.gate("ListWorkloads", app+"/"+entry+"/"+node, func() error { w, err = s.Real.ListWorkloads(ctx, app, entry, node, limit, labels); return err })
	return
}
func (s *StoreShim) ListNodeWorkloads(ctx context.Context, node string, labels map[string]string) (w []*types.Workload, err error) {
	err = s.gate("ListNodeWorkloads", node, func() error { w, err = s.Real.ListNodeWorkloads(ctx, node, labels); return err })
	return
}
func (s *StoreShim) WorkloadStatusStream(ctx context.Context, app, entry, node string, labels map[string]string) chan *types.WorkloadStatus {
	return s.Real.WorkloadStatusStream(ctx, app, entry, node, labels)
}
func (s *StoreShim) GetDeployStatus(ctx context.Context, app, entry string) (m map[string]int, err error) {
	err = s.gate("GetDeployStatus", app+"/"+entry, func() error { m, err = s.Real.GetDeployStatus(ctx, app, entry); return err })
	return
}
func (s *StoreShim) CreateProcessing(ctx context.Context, p *types.Processing, count int) error {
	return s.gate("CreateProcessing", fmt.Sprintf("%s,%d,%s", p.Nodename, count, p.Ident), func() error { return s.Real.CreateProcessing(ctx, p, count) })
}
func (s *StoreShim) DeleteProcessing(ctx context.Context, p *types.Processing) error {
	return s.gate("DeleteProcessing", fmt.Sprintf("%s,%s", p.Nodename, p.Ident), func() error { return s.Real.DeleteProcessing(ctx, p) })
}
func (s *StoreShim) CreateLock(key string, ttl time.Duration) (lock.DistributedLock, error) {
	l, err := s.Real.CreateLock(key, ttl)
	if err != nil {
		return l, err
	}
	return &LockShim{Real: l, Key: key, B: s.B, Inst: s.Inst, T: s.Locks}, nil
}

// ---- locks ------------------------------------------------------------------------------------

// LockEvent is one lock operation as seen by the lock shim.
type LockEvent struct {
	Seq   int64  `json:"seq"`
	G     int64  `json:"g"`
	Inst  string `json:"inst"`
	Key   string `json:"key"`
	Op    string `json:"op"` // attempt | acquired | failed | released
	Held  []string `json:"held,omitempty"` // keys held by this goroutine at an attempt
}

// LockTable tracks, per goroutine, the locks currently held (lockdep style) and the union graph.
type LockTable struct {
	mu     sync.Mutex
	seq    int64
	held   map[int64][]string          // goroutine -> keys in acquisition order
	byInst map[string]map[*LockShim]bool
	waiting map[string]int // instance -> lock / try-lock calls that have not returned yet
	Events []LockEvent
	Edges  map[string]int // "held -> acquired" edge counts
}

// NewLockTable .
func NewLockTable() *LockTable {
	return &LockTable{held: map[int64][]string{}, byInst: map[string]map[*LockShim]bool{}, waiting: map[string]int{}, Edges: map[string]int{}}
}

// Reset clears events and edges (held sets are kept).
func (t *LockTable) Reset() {
	t.mu.Lock()
	t.Events = nil
	t.Edges = map[string]int{}
	t.mu.Unlock()
}

// Snapshot returns the recorded events and edges.
func (t *LockTable) Snapshot() ([]LockEvent, map[string]int) {
	t.mu.Lock()
	defer t.mu.Unlock()
	ev := append([]LockEvent(nil), t.Events...)
	ed := map[string]int{}
	for k, v := range t.Edges {
		ed[k] = v
	}
	return ev, ed
}

// HeldCount returns the number of locks currently held by anybody.
func (t *LockTable) HeldCount() int {
	t.mu.Lock()
	defer t.mu.Unlock()
	n := 0
	for _, m := range t.byInst {
		n += len(m)
	}
	return n
}

// WaitingCount returns the number of lock / try-lock calls of live instances that have not returned yet: somebody
// queued behind a lock is work in progress even while no boundary call is in flight and the lock is changing hands.
func (t *LockTable) WaitingCount(dead func(inst string) bool) int {
	t.mu.Lock()
	defer t.mu.Unlock()
	n := 0
	for inst, k := range t.waiting {
		if dead == nil || !dead(inst) {
			n += k
		}
	}
	return n
}

// HeldByInst returns the lock shims an instance currently holds.
func (t *LockTable) HeldByInst(inst string) []*LockShim {
	t.mu.Lock()
	defer t.mu.Unlock()
	out := []*LockShim{}
	for l := range t.byInst[inst] {
		out = append(out, l)
	}
	sort.Slice(out, func(i, j int) bool { return out[i].Key < out[j].Key })
	return out
}

// LockShim decorates a lock.DistributedLock. Lock operations are logged but never gated: a waiting
// Lock must not hold the gate.
type LockShim struct {
	Real lock.DistributedLock
	Key  string
	B    *Boundary
	Inst string
	T    *LockTable
	g    int64
}

func (l *LockShim) attempt(op string) int64 {
	g := goid()
	if l.B.Frozen(l.Inst) {
		l.B.park()
	}
	t := l.T
	t.mu.Lock()
	t.seq++
	held := append([]string(nil), t.held[g]...)
	if len(t.Events) < 100000 {
		t.Events = append(t.Events, LockEvent{Seq: t.seq, G: g, Inst: l.Inst, Key: l.Key, Op: "attempt:" + op, Held: held})
	}
	for _, h := range held {
		t.Edges[h+" -> "+l.Key]++
	}
	t.waiting[l.Inst]++
	t.mu.Unlock()
	return g
}

func (l *LockShim) result(g int64, ok bool) {
	t := l.T
	t.mu.Lock()
	t.seq++
	t.waiting[l.Inst]--
	op := "failed"
	if ok {
		op = "acquired"
		t.held[g] = append(t.held[g], l.Key)
		if t.byInst[l.Inst] == nil {
			t.byInst[l.Inst] = map[*LockShim]bool{}
		}
		t.byInst[l.Inst][l] = true
		l.g = g
	}
	if len(t.Events) < 100000 {
		t.Events = append(t.Events, LockEvent{Seq: t.seq, G: g, Inst: l.Inst, Key: l.Key, Op: op})
	}
	t.mu.Unlock()
}

// Lock .
func (l *LockShim) Lock(ctx context.Context) (context.Context, error) {
	g := l.attempt("lock")
	c, err := l.Real.Lock(ctx)
	if l.B.Frozen(l.Inst) { // the instance died while waiting: whatever it got is released by lease expiry
		if err == nil {
			_ = l.Real.Unlock(context.Background())
		}
		l.B.park()
	}
	l.result(g, err == nil)
	return c, err
}

// TryLock .
func (l *LockShim) TryLock(ctx context.Context) (context.Context, error) {
	g := l.attempt("trylock")
	c, err := l.Real.TryLock(ctx)
	l.result(g, err == nil)
	return c, err
}

// Unlock .
func (l *LockShim) Unlock(ctx context.Context) error {
	if l.B.Frozen(l.Inst) {
		l.B.park()
	}
	t := l.T
	t.mu.Lock()
	t.seq++
	// the unlocking goroutine may differ from the locking one (deferred unlock runs in the same goroutine in calcium)
	g := l.g
	hs := t.held[g]
	for i := len(hs) - 1; i >= 0; i-- {
		if hs[i] == l.Key {
			t.held[g] = append(hs[:i:i], hs[i+1:]...)
			break
		}
	}
	if len(t.held[g]) == 0 {
		delete(t.held, g)
	}
	delete(t.byInst[l.Inst], l)
	if len(t.Events) < 100000 {
		t.Events = append(t.Events, LockEvent{Seq: t.seq, G: goid(), Inst: l.Inst, Key: l.Key, Op: "released"})
	}
	t.mu.Unlock()
	return l.Real.Unlock(ctx)
}

// ForceRelease releases the real lock on behalf of a dead instance (what lease expiry does).
func (l *LockShim) ForceRelease() {
	t := l.T
	t.mu.Lock()
	delete(t.byInst[l.Inst], l)
	hs := t.held[l.g]
	for i := len(hs) - 1; i >= 0; i-- {
		if hs[i] == l.Key {
			t.held[l.g] = append(hs[:i:i], hs[i+1:]...)
			break
		}
	}
	t.mu.Unlock()
	ctx, cancel := context.WithTimeout(context.Background(), 10*time.Second)
	defer cancel()
	_ = l.Real.Unlock(ctx)
}

// ---- resource manager -------------------------------------------------------------------------

// RmgrShim decorates a resource.Manager.
type RmgrShim struct {
	Real resource.Manager
	B    *Boundary
	Inst string
	// OnCapacity is called with the answer of GetNodesDeployCapacity (C01/C21 second source).
	OnCapacity func(nodenames []string, opts resourcetypes.Resources, caps map[string]*plugintypes.NodeDeployCapacity, total int, err error)
	// OnAlloc is called with every Alloc outcome.
	OnAlloc func(node string, count int, err error)
	// CtxHook, when set, sees the context calcium passes to GetNodesDeployCapacity / Realloc before the call is
	// performed (both run inside calcium's locked sections); it may block (C19: park the operation under its locks).
	CtxHook func(op string, ctx context.Context)
}

var _ resource.Manager = (*RmgrShim)(nil)

func (m *RmgrShim) gate(op, arg string, f func() error) error {
	done, ierr := m.B.Call(m.Inst, "rmgr", op, arg)
	if ierr != nil {
		done(ierr)
		return ierr
	}
	err := f()
	done(err)
	return err
}

func (m *RmgrShim) AddNode(ctx context.Context, n string, r resourcetypes.Resources, i *enginetypes.Info) (res resourcetypes.Resources, err error) {
	err = m.gate("AddNode", n, func() error { res, err = m.Real.AddNode(ctx, n, r, i); return err })
	return
}
func (m *RmgrShim) RemoveNode(ctx context.Context, n string) error {
	return m.gate("RemoveNode", n, func() error { return m.Real.RemoveNode(ctx, n) })
}
func (m *RmgrShim) GetNodesDeployCapacity(ctx context.Context, ns []string, r resourcetypes.Resources) (c map[string]*plugintypes.NodeDeployCapacity, total int, err error) {
	sorted := append([]string(nil), ns...)
	sort.Strings(sorted)
	if h := m.CtxHook; h != nil {
		h("GetNodesDeployCapacity", ctx)
	}
	err = m.gate("GetNodesDeployCapacity", strings.Join(sorted, ","), func() error { c, total, err = m.Real.GetNodesDeployCapacity(ctx, ns, r); return err })
	if m.OnCapacity != nil {
		m.OnCapacity(ns, r, c, total, err)
	}
	return
}
func (m *RmgrShim) SetNodeResourceCapacity(ctx context.Context, n string, a, b resourcetypes.Resources, delta, incr bool) (x, y resourcetypes.Resources, err error) {
	err = m.gate("SetNodeResourceCapacity", fmt.Sprintf("%s,delta=%v,incr=%v", n, delta, incr), func() error {
		x, y, err = m.Real.SetNodeResourceCapacity(ctx, n, a, b, delta, incr)
		return err
	})
	return
}
func (m *RmgrShim) SetNodeResourceUsage(ctx context.Context, n string, a, b resourcetypes.Resources, w []resourcetypes.Resources, delta, incr bool) (x, y resourcetypes.Resources, err error) {
	err = m.gate("SetNodeResourceUsage", fmt.Sprintf("%s,n=%d,incr=%v", n, len(w), incr), func() error {
		x, y, err = m.Real.SetNodeResourceUsage(ctx, n, a, b, w, delta, incr)
		return err
	})
	return
}
func (m *RmgrShim) GetNodeResourceInfo(ctx context.Context, n string, w []*types.Workload, fix bool) (a, b resourcetypes.Resources, d []string, err error) {
	err = m.gate("GetNodeResourceInfo", fmt.Sprintf("%s,fix=%v", n, fix), func() error { a, b, d, err = m.Real.GetNodeResourceInfo(ctx, n, w, fix); return err })
	return
}
func (m *RmgrShim) GetMostIdleNode(ctx context.Context, ns []string) (string, error) {
	return m.Real.GetMostIdleNode(ctx, ns)
}
func (m *RmgrShim) Alloc(ctx context.Context, n string, count int, r resourcetypes.Resources) (a, b []resourcetypes.Resources, err error) {
	err = m.gate("Alloc", fmt.Sprintf("%s,%d", n, count), func() error { a, b, err = m.Real.Alloc(ctx, n, count, r); return err })
	if m.OnAlloc != nil {
		m.OnAlloc(n, count, err)
	}
	return
}
func (m *RmgrShim) RollbackAlloc(ctx context.Context, n string, w []resourcetypes.Resources) error {
	return m.gate("RollbackAlloc", fmt.Sprintf("%s,%d", n, len(w)), func() error { return m.Real.RollbackAlloc(ctx, n, w) })
}
func (m *RmgrShim) Realloc(ctx context.Context, n string, a, b resourcetypes.Resources) (x, y, z resourcetypes.Resources, err error) {
	if h := m.CtxHook; h != nil {
		h("Realloc", ctx)
	}
	err = m.gate("Realloc", n, func() error { x, y, z, err = m.Real.Realloc(ctx, n, a, b); return err })
	return
}
func (m *RmgrShim) RollbackRealloc(ctx context.Context, n string, w resourcetypes.Resources) error {
	return m.gate("RollbackRealloc", n, func() error { return m.Real.RollbackRealloc(ctx, n, w) })
}
func (m *RmgrShim) Remap(ctx context.Context, n string, w []*types.Workload) (r map[string]resourcetypes.Resources, err error) {
	err = m.gate("Remap", n, func() error { r, err = m.Real.Remap(ctx, n, w); return err })
	return
}
func (m *RmgrShim) GetNodeMetrics(ctx context.Context, n *types.Node) ([]*plugintypes.Metrics, error) {
	return m.Real.GetNodeMetrics(ctx, n)
}
func (m *RmgrShim) GetMetricsDescription(ctx context.Context) ([]*plugintypes.MetricsDescription, error) {
	return m.Real.GetMetricsDescription(ctx)
}

// ---- WAL --------------------------------------------------------------------------------------

// WALShim decorates a wal.WAL. Log and the returned commit closures are gated; Recover is only logged
// (its handlers make boundary calls of their own).
type WALShim struct {
	Real wal.WAL
	B    *Boundary
	Inst string

	mu        sync.Mutex
	Logged    int
	Committed int
	CommitErr int
	open      map[int]string // log id -> event type, not yet committed
	nextID    int
}

var _ wal.WAL = (*WALShim)(nil)

// Register .
func (w *WALShim) Register(h wal.EventHandler) { w.Real.Register(h) }

// Recover .
func (w *WALShim) Recover(ctx context.Context) {
	w.B.Note(w.Inst, "wal", "Recover", "begin", nil)
	w.Real.Recover(ctx)
	w.B.Note(w.Inst, "wal", "Recover", "end", nil)
}

// Close .
func (w *WALShim) Close() error { return w.Real.Close() }

// Log .
func (w *WALShim) Log(typ string, item any) (wal.Commit, error) {
	done, ierr := w.B.Call(w.Inst, "wal", "Log", typ)
	if ierr != nil {
		done(ierr)
		return nil, ierr
	}
	commit, err := w.Real.Log(typ, item)
	done(err)
	if err != nil {
		return commit, err
	}
	w.mu.Lock()
	w.Logged++
	w.nextID++
	id := w.nextID
	if w.open == nil {
		w.open = map[int]string{}
	}
	w.open[id] = typ
	w.mu.Unlock()
	return func() error {
		d, ie := w.B.Call(w.Inst, "wal", "Commit", typ)
		if ie != nil {
			d(ie)
			w.mu.Lock()
			w.CommitErr++
			w.mu.Unlock()
			return ie
		}
		e := commit()
		d(e)
		w.mu.Lock()
		if e == nil {
			w.Committed++
			delete(w.open, id)
		} else {
			w.CommitErr++
		}
		w.mu.Unlock()
		return e
	}, nil
}

// Open returns the event types logged through this shim and not yet committed.
func (w *WALShim) Open() []string {
	w.mu.Lock()
	defer w.mu.Unlock()
	out := []string{}
	for _, t := range w.open {
		out = append(out, t)
	}
	sort.Strings(out)
	return out
}
