package sim

// Interleaving scheduler and the meta.KV decorator.
//
// Sched serialises the *scheduled* boundary steps of concurrently running operations and picks, with the
// harness PRNG, which waiting goroutine performs its next step. Steps are the leaf calls that change or read
// shared state outside the process: meta.KV calls (inside the etcd store's operations), resource-manager,
// engine and WAL calls. Between two steps the chosen goroutine runs freely until it reaches its next step (or
// blocks on a distributed lock, or finishes); the scheduler notices that nothing is running any more after a
// short settle time and picks again. Correctness of a verdict never depends on the settle time — it only
// shapes which interleavings are produced — and every produced interleaving is one the real program can have,
// because a step is only ever *delayed*, never reordered within its goroutine.

import (
	"context"
	"fmt"
	"math/rand"
	"sync"
	"time"

	"go.etcd.io/etcd/api/v3/mvccpb"
	clientv3 "go.etcd.io/etcd/client/v3"

	"github.com/projecteru2/core/lock"
	"github.com/projecteru2/core/store/etcdv3/meta"
)

type waiter struct {
	ev Event
	ch chan struct{}
}

// Sched is the serialising random scheduler.
type Sched struct {
	mu       sync.Mutex
	on       bool
	layers   map[string]bool
	waiting  []*waiter
	running  int
	changed  time.Time
	r        *rand.Rand
	Settle   time.Duration
	trace    []string
	Steps    int
	Timeouts int
	MaxWait  int // largest number of goroutines seen waiting at once
	stop     chan struct{}
	// Prefer, when set, biases the choice: it returns a weight >= 1 for a waiting step.
	Prefer func(ev Event) int
}

// NewSched installs a scheduler on b for the given layers (e.g. "kv", "rmgr", "engine", "wal").
func NewSched(b *Boundary, layers ...string) *Sched {
	s := &Sched{layers: map[string]bool{}, Settle: 400 * time.Microsecond, stop: make(chan struct{})}
	for _, l := range layers {
		s.layers[l] = true
	}
	b.OnCall = s.onCall
	b.OnDone = s.onDone
	go s.loop()
	return s
}

// Close stops the scheduler goroutine and releases everybody.
func (s *Sched) Close() {
	s.Disable()
	close(s.stop)
}

// Enable starts scheduling with a fresh PRNG stream and an empty trace.
func (s *Sched) Enable(r *rand.Rand) {
	s.mu.Lock()
	s.on, s.r, s.trace, s.changed = true, r, nil, time.Now()
	s.mu.Unlock()
}

// Disable stops scheduling; waiting steps are released at once. It returns the trace of released steps.
func (s *Sched) Disable() []string {
	s.mu.Lock()
	s.on = false
	for _, w := range s.waiting {
		close(w.ch)
	}
	s.waiting = nil
	tr := s.trace
	s.mu.Unlock()
	return tr
}

func (s *Sched) onCall(ev Event) {
	s.mu.Lock()
	if !s.on || !s.layers[ev.Layer] {
		s.mu.Unlock()
		return
	}
	w := &waiter{ev: ev, ch: make(chan struct{})}
	s.waiting = append(s.waiting, w)
	if len(s.waiting) > s.MaxWait {
		s.MaxWait = len(s.waiting)
	}
	s.changed = time.Now()
	s.mu.Unlock()
	select {
	case <-w.ch:
	case <-time.After(30 * time.Second):
		// safety net: never let the harness wedge the program under test
		s.mu.Lock()
		s.Timeouts++
		for i, x := range s.waiting {
			if x == w {
				s.waiting = append(s.waiting[:i], s.waiting[i+1:]...)
				s.running++
				break
			}
		}
		s.mu.Unlock()
	}
}

func (s *Sched) onDone(ev Event) {
	s.mu.Lock()
	if s.layers[ev.Layer] && s.running > 0 {
		s.running--
		s.changed = time.Now()
	}
	s.mu.Unlock()
}

func (s *Sched) loop() {
	t := time.NewTicker(100 * time.Microsecond)
	defer t.Stop()
	for {
		select {
		case <-s.stop:
			return
		case <-t.C:
		}
		s.mu.Lock()
		if s.on && s.running == 0 && len(s.waiting) > 0 && time.Since(s.changed) >= s.Settle {
			i := 0
			if s.Prefer != nil {
				total := 0
				ws := make([]int, len(s.waiting))
				for k, w := range s.waiting {
					ws[k] = s.Prefer(w.ev)
					if ws[k] < 1 {
						ws[k] = 1
					}
					total += ws[k]
				}
				x := s.r.Intn(total)
				for k := range ws {
					if x < ws[k] {
						i = k
						break
					}
					x -= ws[k]
				}
			} else {
				i = s.r.Intn(len(s.waiting))
			}
			w := s.waiting[i]
			s.waiting = append(s.waiting[:i], s.waiting[i+1:]...)
			s.running++
			s.Steps++
			if len(s.trace) < 4000 {
				s.trace = append(s.trace, fmt.Sprintf("%s %s.%s(%s)", w.ev.Tag, w.ev.Layer, w.ev.Op, w.ev.Arg))
			}
			s.changed = time.Now()
			close(w.ch)
		}
		s.mu.Unlock()
	}
}

// ---- meta.KV decorator --------------------------------------------------------------------------

// KVShim decorates the etcd store's meta.KV: every call is a Point (recorded, schedulable).
type KVShim struct {
	Real meta.KV
	B    *Boundary
	Inst string
}

var _ meta.KV = (*KVShim)(nil)

func (k *KVShim) pt(ctx context.Context, op, arg string) func(error) {
	return k.B.Point(k.Inst, "kv", op, arg, TagOf(ctx))
}

func firstKey(m map[string]string) string {
	best := ""
	for k := range m {
		if best == "" || k < best {
			best = k
		}
	}
	return fmt.Sprintf("%s+%d", best, len(m)-1)
}

func (k *KVShim) Grant(ctx context.Context, ttl int64) (*clientv3.LeaseGrantResponse, error) {
	return k.Real.Grant(ctx, ttl)
}
func (k *KVShim) BindStatus(ctx context.Context, entityKey, statusKey, statusValue string, ttl int64) (err error) {
	d := k.pt(ctx, "BindStatus", statusKey)
	err = k.Real.BindStatus(ctx, entityKey, statusKey, statusValue, ttl)
	d(err)
	return
}
func (k *KVShim) Get(ctx context.Context, key string, opts ...clientv3.OpOption) (r *clientv3.GetResponse, err error) {
	d := k.pt(ctx, "Get", key)
	r, err = k.Real.Get(ctx, key, opts...)
	d(err)
	return
}
func (k *KVShim) GetOne(ctx context.Context, key string, opts ...clientv3.OpOption) (r *mvccpb.KeyValue, err error) {
	d := k.pt(ctx, "GetOne", key)
	r, err = k.Real.GetOne(ctx, key, opts...)
	d(err)
	return
}
func (k *KVShim) GetMulti(ctx context.Context, keys []string, opts ...clientv3.OpOption) (r []*mvccpb.KeyValue, err error) {
	a := ""
	if len(keys) > 0 {
		a = fmt.Sprintf("%s+%d", keys[0], len(keys)-1)
	}
	d := k.pt(ctx, "GetMulti", a)
	r, err = k.Real.GetMulti(ctx, keys, opts...)
	d(err)
	return
}
func (k *KVShim) Watch(ctx context.Context, key string, opts ...clientv3.OpOption) clientv3.WatchChan {
	return k.Real.Watch(ctx, key, opts...)
}
func (k *KVShim) Create(ctx context.Context, key, val string, opts ...clientv3.OpOption) (r *clientv3.TxnResponse, err error) {
	d := k.pt(ctx, "Create", key)
	r, err = k.Real.Create(ctx, key, val, opts...)
	d(err)
	return
}
func (k *KVShim) Put(ctx context.Context, key, val string, opts ...clientv3.OpOption) (r *clientv3.PutResponse, err error) {
	d := k.pt(ctx, "Put", key)
	r, err = k.Real.Put(ctx, key, val, opts...)
	d(err)
	return
}
func (k *KVShim) Update(ctx context.Context, key, val string, opts ...clientv3.OpOption) (r *clientv3.TxnResponse, err error) {
	d := k.pt(ctx, "Update", key)
	r, err = k.Real.Update(ctx, key, val, opts...)
	d(err)
	return
}
func (k *KVShim) Delete(ctx context.Context, key string, opts ...clientv3.OpOption) (r *clientv3.DeleteResponse, err error) {
	d := k.pt(ctx, "Delete", key)
	r, err = k.Real.Delete(ctx, key, opts...)
	d(err)
	return
}
func (k *KVShim) BatchCreateAndDecr(ctx context.Context, data map[string]string, decrKey string) (err error) {
	d := k.pt(ctx, "BatchCreateAndDecr", firstKey(data))
	err = k.Real.BatchCreateAndDecr(ctx, data, decrKey)
	d(err)
	return
}
func (k *KVShim) BatchCreate(ctx context.Context, data map[string]string, opts ...clientv3.OpOption) (r *clientv3.TxnResponse, err error) {
	d := k.pt(ctx, "BatchCreate", firstKey(data))
	r, err = k.Real.BatchCreate(ctx, data, opts...)
	d(err)
	return
}
func (k *KVShim) BatchUpdate(ctx context.Context, data map[string]string, opts ...clientv3.OpOption) (r *clientv3.TxnResponse, err error) {
	d := k.pt(ctx, "BatchUpdate", firstKey(data))
	r, err = k.Real.BatchUpdate(ctx, data, opts...)
	d(err)
	return
}
func (k *KVShim) BatchDelete(ctx context.Context, keys []string, opts ...clientv3.OpOption) (r *clientv3.TxnResponse, err error) {
	a := ""
	if len(keys) > 0 {
		a = fmt.Sprintf("%s+%d", keys[0], len(keys)-1)
	}
	d := k.pt(ctx, "BatchDelete", a)
	r, err = k.Real.BatchDelete(ctx, keys, opts...)
	d(err)
	return
}
func (k *KVShim) BatchPut(ctx context.Context, data map[string]string, opts ...clientv3.OpOption) (r *clientv3.TxnResponse, err error) {
	d := k.pt(ctx, "BatchPut", firstKey(data))
	r, err = k.Real.BatchPut(ctx, data, opts...)
	d(err)
	return
}
func (k *KVShim) StartEphemeral(ctx context.Context, path string, heartbeat time.Duration) (<-chan struct{}, func(), error) {
	return k.Real.StartEphemeral(ctx, path, heartbeat)
}
func (k *KVShim) CreateLock(key string, ttl time.Duration) (lock.DistributedLock, error) {
	return k.Real.CreateLock(key, ttl)
}
