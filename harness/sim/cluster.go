package sim

import (
	"sync/atomic"
	"context"
	"encoding/json"
	"fmt"
	"math"
	"path/filepath"
	"sort"
	"strings"
	"testing"
	"time"

	"github.com/alicebob/miniredis/v2"
	clientv3 "go.etcd.io/etcd/client/v3"

	"github.com/projecteru2/core/cluster/calcium"
	enginefactory "github.com/projecteru2/core/engine/factory"
	"github.com/projecteru2/core/resource/cobalt"
	"github.com/projecteru2/core/resource/plugins/cpumem"
	cpumemtypes "github.com/projecteru2/core/resource/plugins/cpumem/types"
	resourcetypes "github.com/projecteru2/core/resource/types"
	"github.com/projecteru2/core/store"
	"github.com/projecteru2/core/store/etcdv3"
	"github.com/projecteru2/core/store/etcdv3/embedded"
	"github.com/projecteru2/core/store/etcdv3/meta"
	"github.com/projecteru2/core/types"
)

// BootOpts configures a simulated cluster.
type BootOpts struct {
	Inst      string // instance tag ("A")
	Redis     bool   // metadata in redis (miniredis); the cpumem plugin still records usage in embedded etcd
	ShareBase int
	MaxShare  int
	WALFile   string // default: <tmp>/core.wal
	MaxConcurrency int
	LockTimeout time.Duration
	// NoShims: calcium keeps its own store / resource manager / WAL (no recording decorators, no lock table):
	// nothing of the harness sits between core's goroutines (C34)
	NoShims bool
	// PluginLayer: every resource plugin of the manager is wrapped in a PluginShim (layer "plugin") and a second
	// plugin ("slots") is added, so that faults can hit single plugin calls and cobalt's partial-commit paths run
	PluginLayer bool
}

// Cluster is one Calcium instance with its shims.
type Cluster struct {
	T     *testing.T
	B     *Boundary
	Cfg   types.Config
	C     *calcium.Calcium
	Inst  string
	Store *StoreShim
	Rmgr  *RmgrShim
	WAL   *WALShim
	Locks *LockTable
	Raw   store.Store     // the unwrapped store
	Plug  *cpumem.Plugin  // an independent plugin handle on the same etcd (reads usage records)
	KV    *meta.ETCD      // raw etcd access (dumps)
	Redis *miniredis.Miniredis
	Slots *SlotsPlugin // the second plugin (BootOpts.PluginLayer), nil otherwise
}

var engineCacheInit bool

// Config builds a core configuration for the simulator.
func Config(o BootOpts, tmp string) types.Config {
	if o.ShareBase == 0 {
		o.ShareBase = 100
	}
	if o.MaxShare == 0 {
		o.MaxShare = -1
	}
	if o.MaxConcurrency == 0 {
		o.MaxConcurrency = 100000
	}
	if o.LockTimeout == 0 {
		o.LockTimeout = 30 * time.Second
	}
	wf := o.WALFile
	if wf == "" {
		wf = filepath.Join(tmp, "core.wal")
	}
	cfg := types.Config{
		Bind:              ":5001",
		LockTimeout:       o.LockTimeout,
		GlobalTimeout:     2 * time.Minute,
		ConnectionTimeout: 10 * time.Second,
		HAKeepaliveInterval: 16 * time.Second,
		MaxConcurrency:    o.MaxConcurrency,
		Store:             types.Etcd,
		WALFile:           wf,
		WALOpenTimeout:    8 * time.Second,
		Etcd:              types.EtcdConfig{Prefix: "/verif", LockPrefix: "__lock__/verif"},
		Scheduler:         types.SchedulerConfig{MaxShare: o.MaxShare, ShareBase: o.ShareBase, MaxDeployCount: 10000},
		GRPCConfig:        types.GRPCConfig{ServiceDiscoveryPushInterval: time.Second, ServiceHeartbeatInterval: time.Second, MaxConcurrentStreams: 100, MaxRecvMsgSize: 20971520},
		ResourcePlugin:    types.ResourcePluginConfig{CallTimeout: 30 * time.Second},
	}
	return cfg
}

// Boot starts a real Calcium on embedded etcd (and miniredis when requested), registers the in-memory
// engine and wraps store / resource manager / WAL with shims on boundary b.
func Boot(t *testing.T, b *Boundary, o BootOpts, shared *Cluster) *Cluster {
	ctx := context.Background()
	if o.Inst == "" {
		o.Inst = "A"
	}
	cfg := Config(o, t.TempDir())
	cl := &Cluster{T: t, B: b, Inst: o.Inst}
	if o.Redis {
		if shared != nil && shared.Redis != nil {
			cl.Redis = shared.Redis
		} else {
			mr, err := miniredis.Run()
			if err != nil {
				t.Fatalf("miniredis: %v", err)
			}
			cl.Redis = mr
			t.Cleanup(mr.Close)
		}
		cfg.Store = types.Redis
		cfg.Redis = types.RedisConfig{Addr: cl.Redis.Addr(), LockPrefix: "/lock", DB: 0}
	}
	cl.Cfg = cfg
	RegisterEngine(b)
	if !engineCacheInit {
		engineCacheInit = true
		enginefactory.InitEngineCache(ctx, cfg, nil)
	}
	c, err := calcium.New(ctx, cfg, t)
	if err != nil {
		t.Fatalf("calcium.New: %v", err)
	}
	cl.C = c
	cl.Raw = c.VerifStore()
	if shared != nil {
		cl.Locks = shared.Locks
	} else {
		cl.Locks = NewLockTable()
	}
	cl.Store = &StoreShim{Real: cl.Raw, B: b, Inst: o.Inst, Locks: cl.Locks}
	if o.PluginLayer {
		mgr, ok := c.VerifRmgr().(*cobalt.Manager)
		if !ok {
			t.Fatalf("resource manager is %T, not *cobalt.Manager", c.VerifRmgr())
		}
		b.SetContainerLayers("rmgr")
		ps := mgr.GetPlugins() // shares its backing array with the manager's own slice
		for i := range ps {
			ps[i] = &PluginShim{Real: ps[i], B: b, Inst: o.Inst}
		}
		if shared != nil && shared.Slots != nil {
			cl.Slots = shared.Slots // the second plugin's records outlive an instance, like cpumem's records in etcd
		} else {
			cl.Slots = NewSlotsPlugin()
		}
		mgr.AddPlugins(&PluginShim{Real: cl.Slots, B: b, Inst: o.Inst})
	}
	cl.Rmgr = &RmgrShim{Real: c.VerifRmgr(), B: b, Inst: o.Inst}
	cl.WAL = &WALShim{Real: c.VerifWAL(), B: b, Inst: o.Inst}
	if !o.NoShims {
		c.VerifSetStore(cl.Store)
		c.VerifSetRmgr(cl.Rmgr)
		c.VerifSetWAL(cl.WAL)
	}
	if cl.Plug, err = cpumem.NewPlugin(ctx, cfg, t); err != nil {
		t.Fatalf("cpumem.NewPlugin: %v", err)
	}
	if cl.KV, err = meta.NewETCD(cfg.Etcd, t); err != nil {
		t.Fatalf("meta.NewETCD: %v", err)
	}
	return cl
}

// Ctx returns a context tagged with this instance and an operation label.
func (cl *Cluster) Ctx(op string) context.Context { return Tag(context.Background(), cl.Inst, op) }

// WipeEtcd deletes every key of the namespace (between histories).
func (cl *Cluster) WipeEtcd() {
	_, _ = cl.KV.Delete(context.Background(), "/", clientv3.WithPrefix())
	_, _ = cl.KV.Delete(context.Background(), "_", clientv3.WithPrefix())
	if cl.Redis != nil {
		cl.Redis.FlushAll()
	}
	if cl.Slots != nil {
		cl.Slots.Reset()
	}
}

// NodeSpec describes a node to add.
type NodeSpec struct {
	Name      string            `json:"name"`
	Pod       string            `json:"pod"`
	Cores     int               `json:"cores"`
	Share     int               `json:"share,omitempty"`
	Memory    int64             `json:"memory"`
	NUMACPU   []string          `json:"numa_cpu,omitempty"`    // e.g. ["0,1","2,3"]
	NUMAMem   []string          `json:"numa_memory,omitempty"` // e.g. ["1G","1G"] (bytes as decimal strings)
	Labels    map[string]string `json:"labels,omitempty"`
	Up        bool              `json:"up"`     // has a node status key
	Bypass    bool              `json:"bypass"`
}

// NodeResources is the add-node resource request of a node spec.
func NodeResources(n NodeSpec) resourcetypes.Resources {
	res := resourcetypes.RawParams{"cpu": n.Cores, "memory": n.Memory}
	if n.Share != 0 {
		res["share"] = n.Share
	}
	if len(n.NUMACPU) > 0 {
		res["numa-cpu"] = n.NUMACPU
		res["numa-memory"] = n.NUMAMem
	}
	return resourcetypes.Resources{"cpumem": res}
}

// AddNode adds a node through calcium.AddNode (host created first) and sets its liveness.
func (cl *Cluster) AddNode(ctx context.Context, n NodeSpec) (*types.Node, error) {
	NewHost(n.Name, n.Cores, n.Memory*10/8)
	node, err := cl.C.AddNode(ctx, &types.AddNodeOptions{Nodename: n.Name, Endpoint: Prefix + n.Name, Podname: n.Pod, Labels: n.Labels, Resources: NodeResources(n)})
	if err != nil {
		return nil, err
	}
	if n.Up {
		if err := cl.Raw.SetNodeStatus(ctx, node, 3600); err != nil {
			return node, fmt.Errorf("SetNodeStatus: %w", err)
		}
	}
	if n.Bypass {
		if _, err := cl.C.SetNode(ctx, &types.SetNodeOptions{Nodename: n.Name, Bypass: types.TriTrue}); err != nil {
			return node, fmt.Errorf("SetNode bypass: %w", err)
		}
	}
	return node, nil
}

// ---- snapshot ---------------------------------------------------------------------------------

// WorkloadSnap is the semantic content of a workload record.
type WorkloadSnap struct {
	ID     string `json:"id"`
	Name   string `json:"name"`
	Node   string `json:"node"`
	Pod    string `json:"pod"`
	Res    string `json:"resources"`     // canonical JSON of the cpumem resources
	Engine string `json:"engine_params"` // canonical JSON of the engine params
}

// NodeSnap is the semantic content of a node.
type NodeSnap struct {
	Name     string            `json:"name"`
	Pod      string            `json:"pod"`
	Endpoint string            `json:"endpoint"`
	Labels   map[string]string `json:"labels"`
	Bypass   bool              `json:"bypass"`
	Capacity string            `json:"capacity"` // canonical JSON of the plugin's capacity record ("" = no record)
	Usage    string            `json:"usage"`
	Slots    string            `json:"slots,omitempty"` // "used/capacity" of the second plugin ("" = not recorded there / no second plugin)
}

// Snapshot is the normalised, semantic state of the cluster.
type Snapshot struct {
	Pods       []string                `json:"pods"`
	Nodes      map[string]NodeSnap     `json:"nodes"`
	Workloads  map[string]WorkloadSnap `json:"workloads"`
	Resource   []string                `json:"resource_records"` // node names with a plugin record
	SlotNodes  []string                `json:"slot_records,omitempty"` // node names the second plugin knows (plugin layer only)
	Index      map[string][]string     `json:"index"`            // deploy / node-workloads / workloads key sets (ids)
	Processing []string                `json:"processing"`
	Containers map[string][]string     `json:"containers"`       // host -> "id:state"
	Problems   []string                `json:"problems,omitempty"`
}

func canon(v any) string {
	b, _ := json.Marshal(v) // maps are emitted with sorted keys
	return string(b)
}

func canonNodeResource(r *cpumemtypes.NodeResource) string {
	if r == nil {
		return ""
	}
	cm := map[string]int{}
	for k, v := range r.CPUMap {
		cm[k] = v
	}
	nm := map[string]int64{}
	for k, v := range r.NUMAMemory {
		if v != 0 {
			nm[k] = v
		}
	}
	return canon(map[string]any{"cpu": math.Round(r.CPU*1e6) / 1e6, "cpu_map": cm, "memory": r.Memory, "numa_memory": nm, "numa": r.NUMA})
}

// RawKeys dumps all keys (and values) of the metadata store.
func (cl *Cluster) RawKeys(ctx context.Context) (map[string]string, error) {
	out := map[string]string{}
	if cl.Redis != nil {
		for _, k := range cl.Redis.Keys() {
			v, err := cl.Redis.Get(k)
			if err != nil {
				v = "<non-string>"
			}
			out[k] = v
		}
		return out, nil
	}
	resp, err := cl.KV.Get(ctx, "/", clientv3.WithPrefix())
	if err != nil {
		return nil, err
	}
	for _, kv := range resp.Kvs {
		out[string(kv.Key)] = string(kv.Value)
	}
	return out, nil
}

// ResourceRecords returns the node names that have a cpumem record (always in etcd).
func (cl *Cluster) ResourceRecords(ctx context.Context) (map[string]*cpumemtypes.NodeResourceInfo, error) {
	resp, err := cl.KV.Get(ctx, "/resource/cpumem/", clientv3.WithPrefix())
	if err != nil {
		return nil, err
	}
	out := map[string]*cpumemtypes.NodeResourceInfo{}
	for _, kv := range resp.Kvs {
		name := strings.TrimPrefix(string(kv.Key), "/resource/cpumem/")
		info := &cpumemtypes.NodeResourceInfo{}
		if err := json.Unmarshal(kv.Value, info); err != nil {
			return nil, err
		}
		out[name] = info
	}
	return out, nil
}

// Snapshot reads the semantic state through the UNWRAPPED store, raw dumps and the hosts. Call it at a
// quiescent point (inside Boundary.Quiesce or when nothing is running).
func (cl *Cluster) Snapshot(ctx context.Context) *Snapshot {
	s := &Snapshot{Nodes: map[string]NodeSnap{}, Workloads: map[string]WorkloadSnap{}, Index: map[string][]string{}, Containers: map[string][]string{}}
	prob := func(f string, a ...any) { s.Problems = append(s.Problems, fmt.Sprintf(f, a...)) }
	keys, err := cl.RawKeys(ctx)
	if err != nil {
		prob("raw dump: %v", err)
	}
	recs, err := cl.ResourceRecords(ctx)
	if err != nil {
		prob("resource records: %v", err)
	}
	for n := range recs {
		s.Resource = append(s.Resource, n)
	}
	var slots map[string]string
	if cl.Slots != nil {
		slots = cl.Slots.Dump()
		for n := range slots {
			s.SlotNodes = append(s.SlotNodes, n)
		}
		sort.Strings(s.SlotNodes)
	}
	sort.Strings(s.Resource)
	for k, v := range keys {
		switch {
		case strings.HasPrefix(k, "/pod/info/"):
			s.Pods = append(s.Pods, strings.TrimPrefix(k, "/pod/info/"))
		case strings.HasPrefix(k, "/node/") && !strings.Contains(strings.TrimPrefix(k, "/node/"), ":"):
			n := &types.Node{}
			if err := json.Unmarshal([]byte(v), n); err != nil {
				prob("node record %s: %v", k, err)
				continue
			}
			ns := NodeSnap{Name: n.Name, Pod: n.Podname, Endpoint: n.Endpoint, Labels: n.Labels, Bypass: n.Bypass}
			if ns.Labels == nil {
				ns.Labels = map[string]string{}
			}
			if r, ok := recs[n.Name]; ok {
				ns.Capacity, ns.Usage = canonNodeResource(r.Capacity), canonNodeResource(r.Usage)
			}
			if slots != nil {
				ns.Slots = slots[n.Name]
			}
			s.Nodes[n.Name] = ns
		case strings.HasPrefix(k, "/node/") && strings.Contains(k, ":pod/"):
			s.Index["node-pod"] = append(s.Index["node-pod"], strings.TrimPrefix(k, "/node/"))
		case strings.HasPrefix(k, "/node/") && strings.Contains(k, ":workloads/"):
			s.Index["node-workloads"] = append(s.Index["node-workloads"], strings.TrimPrefix(k, "/node/"))
		case strings.HasPrefix(k, "/workloads/"):
			w := &types.Workload{}
			if err := json.Unmarshal([]byte(v), w); err != nil {
				prob("workload record %s: %v", k, err)
				continue
			}
			s.Workloads[w.ID] = WorkloadSnap{ID: w.ID, Name: w.Name, Node: w.Nodename, Pod: w.Podname, Res: canon(w.Resources), Engine: canon(w.EngineParams)}
			s.Index["workloads"] = append(s.Index["workloads"], w.ID)
		case strings.HasPrefix(k, "/deploy/"):
			s.Index["deploy"] = append(s.Index["deploy"], strings.TrimPrefix(k, "/deploy/"))
		case strings.HasPrefix(k, "/processing/"):
			s.Processing = append(s.Processing, strings.TrimPrefix(k, "/processing/")+"="+v)
		}
	}
	sort.Strings(s.Pods)
	sort.Strings(s.Processing)
	for _, l := range s.Index {
		sort.Strings(l)
	}
	registryMu.Lock()
	hs := []*Host{}
	for _, h := range hosts {
		hs = append(hs, h)
	}
	registryMu.Unlock()
	for _, h := range hs {
		l := []string{}
		for id, c := range h.Containers() {
			l = append(l, id+":"+c.State)
		}
		sort.Strings(l)
		if len(l) > 0 { // hosts are harness objects: one without containers carries no cluster state
			s.Containers[h.Name] = l
		}
	}
	return s
}

// Equal compares two snapshots semantically; it returns a description of the first difference.
func (s *Snapshot) Equal(o *Snapshot) string {
	a, b := canon(s.Pods), canon(o.Pods)
	if a != b {
		return fmt.Sprintf("pods: %s -> %s", a, b)
	}
	for n, x := range s.Nodes {
		y, ok := o.Nodes[n]
		if !ok {
			return "node " + n + " disappeared"
		}
		if canon(x) != canon(y) {
			if x.Capacity != y.Capacity {
				return fmt.Sprintf("node %s capacity: %s -> %s", n, x.Capacity, y.Capacity)
			}
			if x.Usage != y.Usage {
				return fmt.Sprintf("node %s usage: %s -> %s", n, x.Usage, y.Usage)
			}
			if x.Slots != y.Slots {
				return fmt.Sprintf("node %s usage/capacity of the second plugin (slots): %s -> %s", n, x.Slots, y.Slots)
			}
			return fmt.Sprintf("node %s: %s -> %s", n, canon(x), canon(y))
		}
	}
	for n := range o.Nodes {
		if _, ok := s.Nodes[n]; !ok {
			return "node " + n + " appeared"
		}
	}
	if a, b := canon(s.Resource), canon(o.Resource); a != b {
		return fmt.Sprintf("node resource records: %s -> %s", a, b)
	}
	if a, b := canon(s.SlotNodes), canon(o.SlotNodes); a != b {
		return fmt.Sprintf("node resource records of the second plugin (slots): %s -> %s", a, b)
	}
	for id, x := range s.Workloads {
		y, ok := o.Workloads[id]
		if !ok {
			return "workload " + short(id) + " disappeared"
		}
		if canon(x) != canon(y) {
			return fmt.Sprintf("workload %s: %s -> %s", short(id), canon(x), canon(y))
		}
	}
	for id := range o.Workloads {
		if _, ok := s.Workloads[id]; !ok {
			return "workload " + short(id) + " appeared"
		}
	}
	if a, b := canon(s.Index), canon(o.Index); a != b {
		return fmt.Sprintf("index keys: %s -> %s", a, b)
	}
	if a, b := canon(s.Processing), canon(o.Processing); a != b {
		return fmt.Sprintf("processing markers: %s -> %s", a, b)
	}
	if a, b := canon(s.Containers), canon(o.Containers); a != b {
		return fmt.Sprintf("containers: %s -> %s", a, b)
	}
	return ""
}

// ---- invariants -------------------------------------------------------------------------------

// Problem is one invariant violation found at a quiescent point.
type Problem struct {
	Kind string // usage-mismatch | over-capacity | container-without-record | record-without-container | index-mismatch | dangling-workload | node-without-resource | resource-without-node
	What string
	Node string
}

// CheckInvariants recomputes the sum of the recorded workloads' resources per node (it does not trust
// the plugin's own Diffs) and checks referential integrity.
func (cl *Cluster) CheckInvariants(ctx context.Context, s *Snapshot) []Problem {
	var out []Problem
	recs, err := cl.ResourceRecords(ctx)
	if err != nil {
		return []Problem{{Kind: "harness", What: err.Error()}}
	}
	type sum struct {
		cpu  float64
		cmap map[string]int
		mem  int64
		numa map[string]int64
	}
	sums := map[string]*sum{}
	for n := range s.Nodes {
		sums[n] = &sum{cmap: map[string]int{}, numa: map[string]int64{}}
	}
	for id, w := range s.Workloads {
		sm, ok := sums[w.Node]
		if !ok {
			out = append(out, Problem{Kind: "dangling-workload", Node: w.Node, What: fmt.Sprintf("workload %s is recorded on node %s which does not exist", short(id), w.Node)})
			continue
		}
		var res resourcetypes.Resources
		_ = json.Unmarshal([]byte(w.Res), &res)
		wr := &cpumemtypes.WorkloadResource{}
		if err := wr.Parse(res["cpumem"]); err != nil {
			out = append(out, Problem{Kind: "harness", What: "cannot parse workload resources: " + err.Error()})
			continue
		}
		sm.cpu += wr.CPURequest
		for c, p := range wr.CPUMap {
			sm.cmap[c] += p
		}
		sm.mem += wr.MemoryRequest
		for n, m := range wr.NUMAMemory {
			sm.numa[n] += m
		}
	}
	for n, sm := range sums {
		r, ok := recs[n]
		if !ok {
			out = append(out, Problem{Kind: "node-without-resource", Node: n, What: "node " + n + " has no resource record"})
			continue
		}
		u, c := r.Usage, r.Capacity
		if math.Abs(u.CPU-sm.cpu) > 1e-6 {
			out = append(out, Problem{Kind: "usage-mismatch", Node: n, What: fmt.Sprintf("node %s cpu usage %g != sum of recorded workloads %g", n, u.CPU, sm.cpu)})
		}
		keys := map[string]bool{}
		for k := range u.CPUMap {
			keys[k] = true
		}
		for k := range sm.cmap {
			keys[k] = true
		}
		for k := range keys {
			if u.CPUMap[k] != sm.cmap[k] {
				out = append(out, Problem{Kind: "usage-mismatch", Node: n, What: fmt.Sprintf("node %s core %s usage %d != sum of recorded workloads %d", n, k, u.CPUMap[k], sm.cmap[k])})
				break
			}
		}
		if u.Memory != sm.mem {
			out = append(out, Problem{Kind: "usage-mismatch", Node: n, What: fmt.Sprintf("node %s memory usage %d != sum of recorded workloads %d", n, u.Memory, sm.mem)})
		}
		nk := map[string]bool{}
		for k := range u.NUMAMemory {
			nk[k] = true
		}
		for k := range sm.numa {
			nk[k] = true
		}
		for k := range nk {
			if u.NUMAMemory[k] != sm.numa[k] {
				out = append(out, Problem{Kind: "usage-mismatch", Node: n, What: fmt.Sprintf("node %s NUMA node %s memory usage %d != sum of recorded workloads %d", n, k, u.NUMAMemory[k], sm.numa[k])})
				break
			}
		}
		for k, v := range u.CPUMap {
			if v > c.CPUMap[k] {
				out = append(out, Problem{Kind: "over-capacity", Node: n, What: fmt.Sprintf("node %s core %s usage %d > capacity %d", n, k, v, c.CPUMap[k])})
				break
			}
		}
		if u.Memory > c.Memory {
			out = append(out, Problem{Kind: "over-capacity", Node: n, What: fmt.Sprintf("node %s memory usage %d > capacity %d", n, u.Memory, c.Memory)})
		}
		for k, v := range u.NUMAMemory {
			if v > c.NUMAMemory[k] {
				out = append(out, Problem{Kind: "over-capacity", Node: n, What: fmt.Sprintf("node %s NUMA node %s memory usage %d > capacity %d", n, k, v, c.NUMAMemory[k])})
				break
			}
		}
	}
	for n := range recs {
		if _, ok := s.Nodes[n]; !ok {
			out = append(out, Problem{Kind: "resource-without-node", Node: n, What: "resource record of " + n + " belongs to no recorded node"})
		}
	}
	if cl.Slots != nil {
		sl := map[string]int64{}
		for _, w := range s.Workloads {
			var res resourcetypes.Resources
			_ = json.Unmarshal([]byte(w.Res), &res)
			if p, ok := res[SlotsName]; ok {
				sl[w.Node] += p.Int64("slots")
			}
		}
		for n := range s.Nodes {
			used, ok := cl.Slots.Used(n)
			if !ok {
				out = append(out, Problem{Kind: "node-without-resource", Node: n, What: "node " + n + " has no record in the second plugin (slots)"})
				continue
			}
			if used != sl[n] {
				out = append(out, Problem{Kind: "usage-mismatch", Node: n, What: fmt.Sprintf("node %s slots usage %d != sum of recorded workloads %d (second plugin)", n, used, sl[n])})
			}
		}
		for _, n := range s.SlotNodes {
			if _, ok := s.Nodes[n]; !ok {
				out = append(out, Problem{Kind: "resource-without-node", Node: n, What: "record of " + n + " in the second plugin (slots) belongs to no recorded node"})
			}
		}
	}
	// index key sets must agree with the workload records
	want := map[string]bool{}
	for id := range s.Workloads {
		want[id] = true
	}
	for name, l := range map[string][]string{"deploy": s.Index["deploy"], "node-workloads": s.Index["node-workloads"]} {
		got := map[string]bool{}
		for _, k := range l {
			got[k[strings.LastIndexByte(k, '/')+1:]] = true
		}
		for id := range want {
			if !got[id] {
				out = append(out, Problem{Kind: "index-mismatch", What: fmt.Sprintf("workload %s has a record but no %s key", short(id), name)})
			}
		}
		for id := range got {
			if !want[id] {
				out = append(out, Problem{Kind: "index-mismatch", What: fmt.Sprintf("%s key of %s without a workload record", name, short(id))})
			}
		}
	}
	// containers <-> records
	byHost := map[string]map[string]string{}
	for h, l := range s.Containers {
		byHost[h] = map[string]string{}
		for _, e := range l {
			i := strings.IndexByte(e, ':')
			byHost[h][e[:i]] = e[i+1:]
		}
	}
	for id, w := range s.Workloads {
		if _, ok := byHost[w.Node][id]; !ok {
			out = append(out, Problem{Kind: "record-without-container", Node: w.Node, What: fmt.Sprintf("workload %s is recorded on %s but the engine has no such container", short(id), w.Node)})
		}
	}
	for h, m := range byHost {
		for id := range m {
			if _, ok := s.Workloads[id]; !ok {
				out = append(out, Problem{Kind: "container-without-record", Node: h, What: fmt.Sprintf("container %s exists on %s without a workload record", short(id), h)})
			}
		}
	}
	sort.Slice(out, func(i, j int) bool { return out[i].What < out[j].What })
	return out
}

// WaitQuiet waits until the instance is quiescent: no gated boundary call in flight, no distributed lock
// held by any goroutine (asynchronous remap jobs hold the node-operation lock while they run) and no new
// boundary event for a stability window. (The ants pool's Running() counts idle workers until they are
// purged after a second, so it cannot serve as the signal.) It returns false after patience.
func (cl *Cluster) WaitQuiet(patience time.Duration) bool {
	return cl.WaitQuietWindow(QuietWindow, patience)
}

// WaitQuietWindow is WaitQuiet with an explicit window (a check that is about to report something which late
// asynchronous work could still repair waits once more, much longer, and looks again).
func (cl *Cluster) WaitQuietWindow(window, patience time.Duration) bool {
	deadline := time.Now().Add(patience)
	last := cl.B.Seq()
	stableSince := time.Now()
	for time.Now().Before(deadline) {
		seq := cl.B.Seq()
		if seq != last || cl.B.Inflight() != 0 || cl.Locks.HeldCount() != 0 || cl.Locks.WaitingCount(cl.B.Frozen) != 0 {
			last = seq
			stableSince = time.Now()
		} else if time.Since(stableSince) >= window {
			return true
		}
		// Work that core hands to its worker pool after an operation returned (the remap) shows up at the boundary
		// only once its goroutine has been given a CPU. The window therefore only counts while this process is
		// demonstrably being scheduled: a 1 ms sleep that overshoots by more than 4 ms (a starved machine) restarts it.
		t0 := time.Now()
		time.Sleep(time.Millisecond)
		if time.Since(t0) > 5*time.Millisecond {
			stableSince = time.Now()
			atomic.AddInt64(&QuietWindowRestarts, 1)
		}
	}
	return false
}

// QuietWindowRestarts counts how often a quiet window was restarted because the process was not scheduled promptly.
var QuietWindowRestarts int64

// QuietWindow is how long the event log must stay unchanged (with nothing in flight and no lock held)
// before the cluster counts as quiescent.
var QuietWindow = 15 * time.Millisecond

// InstallKVShim puts a recording / schedulable decorator around the etcd store's meta.KV (hook-free: Mercury
// embeds the exported interface field). It returns false when the metadata store is not the etcd one.
func (cl *Cluster) InstallKVShim() bool {
	m, ok := cl.Raw.(*etcdv3.Mercury)
	if !ok {
		return false
	}
	if _, already := m.KV.(*KVShim); !already {
		m.KV = &KVShim{Real: m.KV, B: cl.B, Inst: cl.Inst}
	}
	return true
}

// EtcdClient returns a raw (namespaced) client of the embedded etcd the cluster runs on (leases, revocation, raw
// reads). Call it from the test goroutine: the embedded-cluster registry is not synchronised.
func (cl *Cluster) EtcdClient() *clientv3.Client {
	return embedded.NewCluster(cl.T, cl.Cfg.Etcd.Prefix).RandClient()
}
