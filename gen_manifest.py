#!/usr/bin/env python3
"""Regenerates MANIFEST.json from checks_table.py (single source of truth for the driver and the manifest)."""
import json, os, sys
VERIF = os.path.dirname(os.path.abspath(__file__))
sys.path.insert(0, VERIF)
from checks_table import CHECKS, NOT_APPLICABLE, ENGINES

props = [json.loads(l)["id"] for l in open(os.path.join(VERIF, "properties.jsonl"))]
checks = []
for pid in props:
    if pid not in CHECKS:
        continue
    c = CHECKS[pid]
    checks.append({
        "property_id": pid,
        "quick_cmd": "./check %s quick" % pid,
        "thorough_cmd": "./check %s thorough" % pid,
        "evidence_file": "/verif/evidence/%s.json" % pid,
        "replay_cmd_template": "./check %s quick --replay {path}" % pid,
        "engine": c.get("engine", "harness/checks"),
        "level_claimed": {"category": c["level"], "text": c["level_text"], "design_ref": c.get("design_ref", "DESIGN.md §5 " + pid)},
        "level_note": c["level_note"],
        "technique": c["technique"],
    })
na = [{"property_id": p, "reason": NOT_APPLICABLE.get(p, "no check registered yet: the monitor for this property is not built/validated in this tree (work in progress, see DESIGN.md)")} for p in props if p not in CHECKS]
m = {
    "version": 1,
    "setup_cmd": "./setup.sh",
    "hooks": {
        "guard": "verif",
        "enable": "go build tag: go test -tags verif (the driver ./check always passes -tags verif)",
        "baseline_off_cmd": "cd /repo && GOFLAGS=-mod=mod GOPROXY=off GOSUMDB=off go test -vet=off -count=1 -timeout 25m ./...",
        "source_commits": json.load(open(os.path.join(VERIF, "hooks_commits.json"))) if os.path.exists(os.path.join(VERIF, "hooks_commits.json")) else [],
        "add_only": True,
    },
    "engines": ENGINES,
    "checks": checks,
    "notes": "Technique family: runtime monitoring and sanitizers. Every check runs the real projecteru2/core code (rebuilt from /repo's working tree on each invocation) under generated workloads with recording shims, fault/delay/crash injection and deterministic oracles; see DESIGN.md. Exit codes: 0 held on what was observed, 1 VIOLATION, 2 inconclusive (never folded into the other two).",
    "not_applicable": na,
}
json.dump(m, open(os.path.join(VERIF, "MANIFEST.json"), "w"), indent=1)
print("checks:", len(checks), "not_applicable:", len(na))
