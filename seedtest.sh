#!/bin/bash
# usage: seedtest.sh <patch.diff> <ID> [tier]   — applies a seeded change to /repo, runs the check, reverts.
set -u
P=$1; ID=$2; TIER=${3:-quick}
cd /repo || exit 2
git diff --quiet || { echo "/repo not clean"; exit 2; }
git apply "$P" || { echo "patch does not apply"; exit 2; }
BEFORE=$(ls /verif/replays/$ID 2>/dev/null | sort)
( cd /verif && ./check "$ID" "$TIER" > /tmp/seedtest-$ID.out 2>&1 ); rc=$?
grep -o "^VIOLATION[^:]*::.\{0,160\}" /tmp/seedtest-$ID.out | awk '!seen[$3]++' | head -${SEEDTEST_LINES:-6}
grep -E "^(RESULT|INCONCLUSIVE|BUILD-FAILED|KNOWN)" /tmp/seedtest-$ID.out | cut -c1-300 | head -8
# witnesses of a seeded run are not kept
for f in $(ls /verif/replays/$ID 2>/dev/null | sort); do echo "$BEFORE" | grep -qx "$f" || rm -f "/verif/replays/$ID/$f"; done
git -C /repo checkout -- . ; git -C /repo clean -fdq -e _seed >/dev/null 2>&1
( cd /verif && git checkout -q -- evidence 2>/dev/null )
echo "seedtest rc=$rc"
