#!/bin/bash
# usage: seedtest.sh <patch.diff> <ID> [tier]   — applies a seeded change to /repo, runs the check, reverts.
set -u
P=$1; ID=$2; TIER=${3:-quick}
cd /repo || exit 2
git diff --quiet || { echo "/repo not clean"; exit 2; }
git apply "$P" || { echo "patch does not apply"; exit 2; }
( cd /verif && ./check "$ID" "$TIER" 2>&1 | cut -c1-900 ); rc=${PIPESTATUS[0]}
git -C /repo checkout -- . ; git -C /repo clean -fdq -e _seed >/dev/null 2>&1
( cd /verif && git checkout -q -- evidence 2>/dev/null )
echo "seedtest rc=$rc"
