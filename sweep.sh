#!/bin/bash
# usage: sweep.sh <tier> <seed|-> [ID...]  — runs the registered command of every claimed check the way the acceptance
# run does (evidence removed first), prints one line per check; exit 0 iff all exited 0 without a VIOLATION line.
cd "$(dirname "$0")"
TIER=${1:-quick}; SEED=${2:--}; shift 2 2>/dev/null
[ "$SEED" != "-" ] && export VERIF_SEED=$SEED || unset VERIF_SEED
export VERIF_TIER=$TIER CARGO_NET_OFFLINE=true GOPROXY=off PIP_NO_INDEX=1
IDS=${*:-$(jq -r '.checks[].property_id' MANIFEST.json)}
bad=0
mkdir -p /dev/shm/verif-sweep
for id in $IDS; do
  rm -f evidence/$id.json
  t0=$(date +%s)
  ./check $id $TIER > /dev/shm/verif-sweep/$id.$TIER.$SEED.log 2>&1; rc=$?
  v=$(grep -c '^VIOLATION' /dev/shm/verif-sweep/$id.$TIER.$SEED.log)
  ev=no; [ -s evidence/$id.json ] && ev=yes
  echo "$id tier=$TIER seed=$SEED rc=$rc violations=$v evidence=$ev wall=$(( $(date +%s) - t0 ))s :: $(tail -1 /dev/shm/verif-sweep/$id.$TIER.$SEED.log | cut -c1-160)"
  [ $rc -ne 0 ] || [ "$v" != 0 ] || [ $ev = no ] && bad=1
done
exit $bad
