#!/bin/bash
# usage: burn.sh <n> <seconds> — n busy loops for that long (self-terminating): artificial CPU load used to look
# for false alarms of timing-sensitive oracles (DESIGN §12.3). Not part of any registered command.
N=${1:-24}; S=${2:-600}
for i in $(seq $N); do timeout $S sh -c 'while :; do :; done' & done
wait
