#!/usr/bin/env python3
"""usage: set_detect.py <seed-dir-name> <check-id> <caught|missed|n/a> <note>"""
import json, sys
name, check, status, note = sys.argv[1:5]
p = "/verif/seeded/%s/meta.json" % name
m = json.load(open(p))
m.setdefault("detected_by", {})[check] = {"status": status, "note": note}
json.dump(m, open(p, "w"), indent=1)
