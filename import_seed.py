#!/usr/bin/env python3
"""usage: import_seed.py <worktree> <ID> <needs-text>  — copies a confirmed seeded change into /verif/seeded/<ID>/"""
import json, os, shutil, sys, glob
wt, pid, needs = sys.argv[1], sys.argv[2], sys.argv[3]
src = os.path.join(wt, "_seed")
dst = os.path.join("/verif/seeded", pid)
os.makedirs(dst, exist_ok=True)
for f in glob.glob(os.path.join(src, "*")):
    b = os.path.basename(f)
    if b.endswith(".log") or b.startswith("."):
        continue
    if os.path.isfile(f):
        shutil.copy(f, os.path.join(dst, b))
conf = json.load(open(os.path.join(src, "confirm.json"))) if os.path.exists(os.path.join(src, "confirm.json")) else {}
meta_path = os.path.join(dst, "meta.json")
meta = json.load(open(meta_path)) if os.path.exists(meta_path) else {}
meta.update({
    "property": pid,
    "origin": "independent sub-agent given only the property text and a scratch worktree",
    "needs_to_manifest": needs,
    "confirmed_by_me": {
        "how": "confirm_seed.sh in the scratch worktree: git apply patch.diff; go build ./...; go test -vet=off -count=1 ./... (existing suite); demo.sh with the patch; demo.sh without the patch",
        "patch_applies": conf.get("applies"), "build_rc": conf.get("build_rc"),
        "suite_failed_tests_with_patch": conf.get("suite_failed_tests", "").split(),
        "suite_note": "TestListNetworks and TestSourceCode fail on the unchanged tree too (BASELINE always_fail)",
        "demo_with_patch_rc": conf.get("demo_with_patch_rc"), "demo_without_patch_rc": conf.get("demo_without_patch_rc"),
    },
})
meta.setdefault("detected_by", {})
json.dump(meta, open(meta_path, "w"), indent=1)
print("imported", pid)
