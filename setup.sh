#!/bin/bash
# Offline setup after a fresh restore: refresh go.sum from /repo and warm the Go build cache for the
# harness variants. Nothing built here survives a source edit in /repo: ./check rebuilds on every call.
set -e
cd "$(dirname "$0")"
export GOFLAGS=-mod=mod GOPROXY=off GOSUMDB=off GOTOOLCHAIN=local
cp /repo/go.sum harness/go.sum.repo 2>/dev/null || true
T=$(mktemp -d /tmp/verif-setup-XXXXXX)
trap 'rm -rf "$T"' EXIT
( cd harness && go test -c -tags verif -vet=off -o "$T/checks.test" ./checks )
if [ "${VERIF_SETUP_RACE:-1}" = 1 ]; then
  ( cd harness && go test -c -race -tags verif -vet=off -o "$T/race.test" ./checks )
fi
echo setup-ok
