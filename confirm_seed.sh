#!/bin/bash
# usage: confirm_seed.sh <worktree> <name>  — confirms a seeded change delivered by a sub-agent in <worktree>/_seed:
# builds, runs the existing suite with the change, runs the demo with and without the change. Writes <worktree>/_seed/confirm.json
export GOFLAGS=-mod=mod GOPROXY=off GOSUMDB=off GOTOOLCHAIN=local
W=$1; N=$2
cd "$W" || exit 2
git checkout -q -- . ; git apply _seed/patch.diff || { echo "{\"name\":\"$N\",\"applies\":false}" > _seed/confirm.json; exit 1; }
go build ./... >/dev/null 2>_seed/build.log; B=$?
go test -vet=off -count=1 -timeout 25m ./... > _seed/suite.log 2>&1
FAILPK=$(grep -E "^(FAIL|---)" _seed/suite.log | grep -E "^FAIL\s" | awk '{print $2}' | sort -u | tr '\n' ' ')
FAILT=$(grep -E "^\s*--- FAIL" _seed/suite.log | awk '{print $3}' | sort -u | tr '\n' ' ')
bash _seed/demo.sh > _seed/demo_with.log 2>&1; DW=$?
git checkout -q -- . ; git clean -fdq -e _seed
bash _seed/demo.sh > _seed/demo_without.log 2>&1; DO=$?
git checkout -q -- . ; git clean -fdq -e _seed ; git apply _seed/patch.diff
cat > _seed/confirm.json <<J
{"name":"$N","applies":true,"build_rc":$B,"suite_failed_packages":"$FAILPK","suite_failed_tests":"$FAILT","demo_with_patch_rc":$DW,"demo_without_patch_rc":$DO}
J
cat _seed/confirm.json
