#!/usr/bin/env python3
"""Runs the repository's suite with the verif guard OFF and compares with /root/.vp/BASELINE.json (stable_pass)."""
import json, os, subprocess, sys
env = dict(os.environ, GOFLAGS="-mod=mod", GOPROXY="off", GOSUMDB="off", GOTOOLCHAIN="local")
repo = sys.argv[1] if len(sys.argv) > 1 else "/repo"
p = subprocess.run(["go", "test", "-json", "-vet=off", "-count=1", "-timeout", "25m", "./..."], cwd=repo, env=env, stdout=subprocess.PIPE, stderr=subprocess.DEVNULL, text=True)
passed = set()
for line in p.stdout.splitlines():
    try:
        e = json.loads(line)
    except Exception:
        continue
    if e.get("Action") == "pass" and e.get("Test"):
        passed.add(e["Package"] + "::" + e["Test"])
base = set(json.load(open("/root/.vp/BASELINE.json"))["stable_pass"])
missing = sorted(base - passed)
print("baseline %d, passed now %d, missing %d" % (len(base), len(passed & base), len(missing)))
for m in missing:
    print("  MISSING", m)
sys.exit(1 if missing else 0)
